#!/bin/bash
# False-alarm regression: apply each property-preserving bundle under benign/ to a scratch worktree of
# /repo's HEAD, run every quick check there with a private copy of this directory (all must exit 0).
# LANES (default 4) worktrees work in parallel; everything scratch lives under /tmp/benignlane and is
# removed at the end; /repo itself is not touched (it must be clean: the worktrees are made from its
# HEAD). Writes evidence/benign.json.
cd /verif
LANES=${LANES:-4}
S=/tmp/benignlane
[ -n "$(git -C /repo status --porcelain --untracked-files=no)" ] && { echo "/repo not clean"; exit 2; }
rm -rf $S; mkdir -p $S
ls -d benign/*/ | sed 's|/$||' > $S/all.txt
for k in $(seq 1 $LANES); do
  git -C /repo worktree add -q --detach $S/r$k HEAD || exit 2
  rsync -a --exclude .cache --exclude replays --exclude evidence /verif/ $S/v$k/
  mkdir -p $S/v$k/evidence
  awk -v k=$k -v n=$LANES 'NR%n==k%n' $S/all.txt > $S/list$k.txt
  (
    export SEEDED_REPO=$S/r$k SEEDED_VERIF=$S/v$k SEEDED_NO_RESTORE=1
    while read d; do
      b=$(basename $d)
      res=$(/verif/tools_seeded.sh runall /verif/$d quick 2>&1)
      alarms=$(echo "$res" | grep "^caught-by:" | sed 's/^caught-by://')
      herr=$(echo "$res" | grep -c "harness error\|does not apply\|not clean")
      [ "$herr" != 0 ] && alarms="$alarms HARNESS-ERROR"
      printf '{"bundle":"%s","alarms":"%s"}\n' "$b" "$alarms" >> $S/out$k.jsonl
      echo "$b alarms:[$alarms]"
    done < $S/list$k.txt
  ) &
done
wait
python3 - <<PY
import json,glob,sys
rows=[]
for f in glob.glob('$S/out*.jsonl'):
    rows+= [json.loads(l) for l in open(f) if l.strip()]
rows.sort(key=lambda r:(len(r['bundle']),r['bundle']))
json.dump({"benign_bundles":rows,
 "note":"each bundle applied to a scratch worktree of /repo's HEAD, all 20 quick checks run against it with a private copy of /verif (exit 0 expected)"},
 open('/verif/evidence/benign.json','w'),indent=1)
bad=[r for r in rows if r['alarms'].strip()]
print(len(rows),'bundles;',len(bad),'with alarms',[ (r['bundle'],r['alarms']) for r in bad])
open('$S/rc','w').write('1' if bad else '0')
PY
rc=$(cat $S/rc)
for k in $(seq 1 $LANES); do git -C /repo worktree remove --force $S/r$k; done
git -C /repo worktree prune
rm -rf $S
exit $rc
