#!/bin/bash
# False-alarm regression: apply each property-preserving bundle under benign/ to /repo, run every
# quick check (all must exit 0), restore /repo. Writes evidence/benign.json.
cd /verif
[ -n "$(git -C /repo status --porcelain --untracked-files=no)" ] && { echo "/repo not clean"; exit 2; }
echo '{"benign_bundles": [' > evidence/benign.json.tmp; first=1; bad=0
for d in benign/*/; do
  b=$(basename $d)
  git -C /repo apply $(realpath $d)/patch.diff || { echo "$b does not apply"; exit 2; }
  alarms=""
  for p in C01 C02 C03 C04 C05 C06 C07 C08 C09 C10 C11 C12 C13 C14 C15 C16 C17 C18 C19 C20; do
    ./check $p quick >/dev/null 2>&1; rc=$?
    [ $rc -ne 0 ] && { alarms="$alarms $p:$rc"; bad=1; }
  done
  git -C /repo checkout -- .
  [ $first = 0 ] && echo ',' >> evidence/benign.json.tmp; first=0
  printf '{"bundle":"%s","alarms":"%s"}' "$b" "$alarms" >> evidence/benign.json.tmp
  echo "$b alarms:[$alarms]"
done
echo '], "note":"each bundle applied to /repo, all 20 quick checks run (exit 0 expected), /repo restored"}' >> evidence/benign.json.tmp
mv evidence/benign.json.tmp evidence/benign.json
./check --setup >/dev/null
exit $bad
