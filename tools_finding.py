#!/usr/bin/env python3
"""tools_finding.py known|fixed <replay-file> "<what>" [commit]  - register a finding (run from /verif)."""
import json,sys,shutil,re,subprocess
status,src,what=sys.argv[1],sys.argv[2],sys.argv[3]
r=json.load(open(src))
if status=="known":
    # a known finding must reproduce on the current, clean /repo tree (never register a replay
    # produced while a seeded change was applied)
    import subprocess as sp
    if sp.run(['git','-C','/repo','status','--porcelain','--untracked-files=no'],capture_output=True).stdout.strip():
        sys.exit("refusing: /repo has uncommitted changes")
    sp.run(['./check','--setup'],capture_output=True)
    rc=sp.run(['./sim/target/release/mcsim','replay',src],capture_output=True).returncode
    if rc!=1:
        sys.exit("refusing: %s does not reproduce on the unchanged tree (exit %d)"%(src,rc))
prop,key=r['property'],r['key']
slug=re.sub(r'[^A-Za-z0-9.\-]','_',key)
dst=("known/" if status=="known" else "regress/")+"%s-%s.json"%(prop,slug)
shutil.copy(src,dst)
d=json.load(open('known_findings.json'))
d['findings']=[f for f in d['findings'] if not (f['property']==prop and f['key']==key)]
e={"property":prop,"key":key,"status":status,"what":what,"replay":dst}
if status=="fixed":
    c=sys.argv[4] if len(sys.argv)>4 else subprocess.check_output(['git','-C','/repo','log','--format=%h','-1']).decode().strip()
    e["commit"]=c; e["line"]="fixed: property=%s %s %s"%(prop,c,what)
d['findings'].append(e)
json.dump(d,open('known_findings.json','w'),indent=1)
print(status,prop,key,'->',dst)
