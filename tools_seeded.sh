#!/bin/bash
# tools_seeded.sh confirm <ID>   : confirm the three claims of a seeded change in its scratch worktree /tmp/mut/<ID>
# tools_seeded.sh run <dir-with-patch.diff> <PROP> [tier] : apply the patch to /repo, run ./check PROP, undo
#   (SEEDED_REPO / SEEDED_VERIF select another checkout of the repository / of this directory, for parallel work)
# tools_seeded.sh runall <dir-with-patch.diff> [tier] : apply the patch, run all 20 checks, list those that report a violation
set -u
cmd=$1
if [ "$cmd" = confirm ]; then
  ID=$2; W=/tmp/mut/$ID
  cd $W || exit 2
  cp mutation.diff demo.diff NOTES.md /tmp/mut/$ID.keep.$$ 2>/dev/null || { mkdir -p /tmp/mut/$ID.keep.$$; cp mutation.diff demo.diff NOTES.md /tmp/mut/$ID.keep.$$/; }
  K=/tmp/mut/$ID.keep.$$
  git checkout -q -- . ; git clean -qfd src
  export CARGO_NET_OFFLINE=true RUST_BACKTRACE=0
  git apply $K/demo.diff || { echo "demo.diff does not apply"; exit 2; }
  r1=$(cargo test --offline 2>&1 | grep "^test result" | head -1)
  git apply $K/mutation.diff || { echo "mutation.diff does not apply"; exit 2; }
  r2=$(cargo test --offline 2>&1 | grep "^test result" | head -1)
  git apply -R $K/demo.diff
  r3=$(cargo test --offline 2>&1 | grep "^test result" | head -1)
  git checkout -q -- . ; git clean -qfd src
  echo "$ID (i) original+demo: $r1"
  echo "$ID (ii) mutation+demo: $r2"
  echo "$ID (iii) mutation only: $r3"
  cp $K/* $W/ ; rm -rf $K
elif [ "$cmd" = run ]; then
  D=$(realpath $2); P=$3; T=${4:-quick}
  R=${SEEDED_REPO:-/repo}; V=${SEEDED_VERIF:-/verif}
  cd $V
  export VERIF_REPO=$R
  [ -n "$(git -C $R status --porcelain --untracked-files=no)" ] && { echo "$R not clean"; exit 2; }
  git -C $R apply $D/patch.diff 2>/dev/null || git -C $R apply $D/mutation.diff || { echo "patch does not apply"; exit 2; }
  ./check $P $T 2>&1 | grep -v "^WARNING" | cut -c1-400
  rc=${PIPESTATUS[0]}
  git -C $R checkout -- .
  # rebuild the node from the restored tree (no stale mutated binary)
  [ -z "${SEEDED_NO_RESTORE:-}" ] && ./check --setup >/dev/null 2>&1
  echo "exit=$rc"
elif [ "$cmd" = runall ]; then
  D=$(realpath $2); T=${3:-quick}
  R=${SEEDED_REPO:-/repo}; V=${SEEDED_VERIF:-/verif}
  cd $V
  export VERIF_REPO=$R
  [ -n "$(git -C $R status --porcelain --untracked-files=no)" ] && { echo "$R not clean"; exit 2; }
  git -C $R apply $D/patch.diff 2>/dev/null || git -C $R apply $D/mutation.diff || { echo "patch does not apply"; exit 2; }
  caught=""
  for P in C01 C02 C03 C04 C05 C06 C07 C08 C09 C10 C11 C12 C13 C14 C15 C16 C17 C18 C19 C20; do
    out=$(./check $P $T 2>&1); rc=$?
    if [ $rc -eq 1 ]; then caught="$caught $P"; echo "$out" | grep "^violation" | head -2 | cut -c1-220; fi
    [ $rc -ge 2 ] && echo "$P: harness error ($rc)"
  done
  git -C $R checkout -- .
  [ -z "${SEEDED_NO_RESTORE:-}" ] && ./check --setup >/dev/null 2>&1
  echo "caught-by:$caught"
fi
