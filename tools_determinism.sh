#!/bin/bash
# Determinism proof: (a) N seeds x 2 executions in each of 4 processes (different seed ranges),
# (b) same check at 1, 4 and 16 workers must give the same event-log hash. Writes evidence/determinism.json
cd /verif; ./check --setup >/dev/null || exit 2
M=./sim/target/release/mcsim
N=${1:-600}
pids=(); outs=()
for k in 0 1 2 3; do VERIF_DET_OFFSET=$k $M determinism $N > .cache/det.$k.out 2>&1 & pids+=($!); done
bad=0; for p in "${pids[@]}"; do wait $p || bad=1; done
lines=$(cat .cache/det.*.out | grep "^determinism:" | sed 's/"/ /g')
declare -A H
for prop in C07 C12 C20; do for w in 1 4 16; do VERIF_WORKERS=$w VERIF_RUNS=300 $M check $prop quick >/dev/null 2>&1; H[$prop.$w]=$(python3 -c "import json;print(json.load(open('evidence/$prop.json'))['coverage']['event_log_hash'])"); done; [ "${H[$prop.1]}" = "${H[$prop.4]}" ] && [ "${H[$prop.4]}" = "${H[$prop.16]}" ] || bad=1; done
python3 - "$bad" "$N" <<PY
import json,sys,glob
lines=[l.strip() for f in sorted(glob.glob('/verif/.cache/det.*.out')) for l in open(f) if l.startswith('determinism:') or l.startswith('NONDET')]
json.dump({"ok": sys.argv[1]=="0","seeds_per_process":int(sys.argv[2]),"processes":4,"executions_per_seed":2,
 "process_reports":lines,
 "worker_count_hashes":{ "C07":["${H[C07.1]}","${H[C07.4]}","${H[C07.16]}"],"C12":["${H[C12.1]}","${H[C12.4]}","${H[C12.16]}"],"C20":["${H[C20.1]}","${H[C20.4]}","${H[C20.16]}"]},
 "what_is_hashed":"configuration, every schedule step, every reply byte, table size and every event-log line (timestamps included: the clock is simulated), panic message if any"},open('/verif/evidence/determinism.json','w'),indent=1)
print(open('/verif/evidence/determinism.json').read())
PY
exit $bad
