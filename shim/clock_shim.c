/* Clock seam of last resort for the node under test (LD_PRELOAD).
 *
 * The guarded hook in /repo shadows the clock sources the responder uses today (chrono::Utc,
 * SystemTime in http.rs / smb.rs / the loggers). A change to the responder may read time in
 * another way (std::time::Instant, SystemTime elsewhere, libc): every such read ends in
 * clock_gettime(2) / gettimeofday(2) / time(2). This shim answers them from the simulated
 * clocks once the driver has set them through verif_shim_set(); before that (process start-up)
 * the real clocks are used. Wall clock and monotonic clock are separate: simulated wall-clock
 * jumps do not move the monotonic clock, simulated elapsed time moves both. */
#define _GNU_SOURCE
#include <dlfcn.h>
#include <stdint.h>
#include <stddef.h>
#include <sys/time.h>
#include <time.h>

static volatile int active = 0;
static volatile int64_t wall_ns = 0;
static volatile int64_t mono_ns = 0;

static int (*real_clock_gettime)(clockid_t, struct timespec *) = NULL;

void verif_shim_set(int64_t wall_ms, int64_t mono_us) {
    if (wall_ms >= 0) wall_ns = wall_ms * 1000000LL;
    if (mono_us >= 0) mono_ns = mono_us * 1000LL + 1000000000LL; /* never 0: Instant dislikes it */
    active = 1;
}

int clock_gettime(clockid_t c, struct timespec *ts) {
    if (!real_clock_gettime)
        real_clock_gettime = (int (*)(clockid_t, struct timespec *))dlsym(RTLD_NEXT, "clock_gettime");
    if (!active || !ts) return real_clock_gettime(c, ts);
    int64_t ns;
    switch (c) {
    case CLOCK_REALTIME:
    case CLOCK_REALTIME_COARSE:
        ns = wall_ns;
        break;
    case CLOCK_MONOTONIC:
    case CLOCK_MONOTONIC_RAW:
    case CLOCK_MONOTONIC_COARSE:
    case CLOCK_BOOTTIME:
        ns = mono_ns;
        break;
    default:
        return real_clock_gettime(c, ts);
    }
    ts->tv_sec = ns / 1000000000LL;
    ts->tv_nsec = ns % 1000000000LL;
    return 0;
}

int gettimeofday(struct timeval *tv, void *tz) {
    (void)tz;
    struct timespec ts;
    clock_gettime(CLOCK_REALTIME, &ts);
    if (tv) {
        tv->tv_sec = ts.tv_sec;
        tv->tv_usec = ts.tv_nsec / 1000;
    }
    return 0;
}

time_t time(time_t *t) {
    struct timespec ts;
    clock_gettime(CLOCK_REALTIME, &ts);
    if (t) *t = ts.tv_sec;
    return ts.tv_sec;
}
