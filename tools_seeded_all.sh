#!/bin/bash
# Apply every seeded change in turn to a scratch worktree of /repo's HEAD, run the quick check of its
# property there (or, when its meta.json says so with gate_tier / gate_env, another tier) with a private copy of this directory, and collect the results in
# /verif/evidence/sensitivity.json. LANES (default 4) worktrees work in parallel; everything scratch
# lives under /tmp/seedlane and is removed at the end. /repo itself is not touched (it must be clean:
# the worktrees are made from its HEAD).
cd /verif
LANES=${LANES:-4}
S=/tmp/seedlane
[ -n "$(git -C /repo status --porcelain --untracked-files=no)" ] && { echo "/repo not clean"; exit 2; }
rm -rf $S; mkdir -p $S
ls -d seeded/*/ | sed 's|/$||' > $S/all.txt
for k in $(seq 1 $LANES); do
  git -C /repo worktree add -q --detach $S/r$k HEAD || exit 2
  rsync -a --exclude .cache --exclude replays --exclude evidence /verif/ $S/v$k/
  mkdir -p $S/v$k/evidence
  awk -v k=$k -v n=$LANES 'NR%n==k%n' $S/all.txt > $S/list$k.txt
  (
    export SEEDED_REPO=$S/r$k SEEDED_VERIF=$S/v$k SEEDED_NO_RESTORE=1
    while read d; do
      id=$(basename $d); prop=$(python3 -c "import json;print(json.load(open('/verif/$d/meta.json'))['property'])")
      tier=$(python3 -c "import json;print(json.load(open('/verif/$d/meta.json')).get('gate_tier','quick'))")
      genv=$(python3 -c "import json;print(json.load(open('/verif/$d/meta.json')).get('gate_env',''))")
      res=$(env $genv /verif/tools_seeded.sh run /verif/$d $prop $tier 2>&1)
      rc=$(echo "$res" | grep -o "exit=[0-9]*" | tail -1 | cut -d= -f2)
      keys=$(echo "$res" | grep "^violation" | sed -E 's/.*key=([^ ]*) .*/\1/' | sort -u | head -5 | tr '\n' ' ')
      printf '{"id":"%s","property":"%s","check_exit":%s,"caught":%s,"violation_keys":"%s"}\n' "$id" "$prop" "${rc:-2}" "$([ "${rc:-2}" = 1 ] && echo true || echo false)" "$keys" >> $S/out$k.jsonl
      echo "$id $prop exit=${rc:-?} $keys"
    done < $S/list$k.txt
  ) &
done
wait
python3 - <<PY
import json,glob
rows=[]
for f in glob.glob('$S/out*.jsonl'):
    rows+= [json.loads(l) for l in open(f) if l.strip()]
rows.sort(key=lambda r:r['id'])
json.dump({"seeded_changes":rows,"caught":sum(r['caught'] for r in rows),"total":len(rows),
 "note":"each seeded change applied (git apply) to a scratch worktree of /repo's HEAD, ./check <property> quick run against it with a private copy of /verif, worktree restored (git checkout -- .)"},
 open('/verif/evidence/sensitivity.json','w'),indent=1)
print(sum(r['caught'] for r in rows),'of',len(rows),'caught; not caught:',[r['id'] for r in rows if not r['caught']])
PY
for k in $(seq 1 $LANES); do git -C /repo worktree remove --force $S/r$k; done
git -C /repo worktree prune
rm -rf $S
