#!/bin/bash
# Apply every seeded change to /repo in turn, run the quick check of its property, restore /repo.
# Writes /verif/evidence/sensitivity.json. Run from /verif with /repo clean.
cd /verif
out=/verif/evidence/sensitivity.json
echo '{"seeded_changes": [' > $out.tmp
first=1
for d in seeded/*/; do
  id=$(basename $d); prop=$(python3 -c "import json;print(json.load(open('$d/meta.json'))['property'])")
  res=$(./tools_seeded.sh run $d $prop quick 2>&1)
  rc=$(echo "$res" | grep -o "exit=[0-9]*" | tail -1 | cut -d= -f2)
  keys=$(echo "$res" | grep "^violation" | sed -E 's/.*key=([^ ]*) .*/\1/' | sort -u | head -5 | tr '\n' ' ')
  [ $first = 0 ] && echo ',' >> $out.tmp; first=0
  printf '{"id":"%s","property":"%s","check_exit":%s,"caught":%s,"violation_keys":"%s"}' "$id" "$prop" "${rc:-2}" "$([ "${rc:-2}" = 1 ] && echo true || echo false)" "$keys" >> $out.tmp
  echo "$id $prop exit=${rc:-?} $keys"
done
echo '], "note": "each seeded change applied to /repo (git apply), ./check <property> quick run, /repo restored (git checkout -- .)"}' >> $out.tmp
python3 -c "import json;json.load(open('$out.tmp'))" && mv $out.tmp $out
git -C /repo status --short
