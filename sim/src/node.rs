//! The node under test: the real `masscanned` binary (built from /repo with
//! `--cfg masscanned_verif`) running as a child process in `--verif-driver`
//! mode. A panic kills it exactly as in production; the simulator sees EOF.

use std::io::{BufRead, BufReader, BufWriter, Read, Write};
use std::net::IpAddr;
use std::path::{Path, PathBuf};
use std::process::{Child, ChildStderr, ChildStdin, Command, Stdio};
use std::sync::mpsc::{channel, Receiver, RecvTimeoutError};
use std::time::Duration;

use crate::wire::{hex, mac_str, unhex, Mac};

#[derive(Clone, Copy, Debug, PartialEq, Eq, Hash)]
pub enum LoggerKind {
    None,
    Console,
    Logfmt,
}

impl LoggerKind {
    pub fn as_str(&self) -> &'static str {
        match self {
            LoggerKind::None => "none",
            LoggerKind::Console => "console",
            LoggerKind::Logfmt => "logfmt",
        }
    }
    pub fn parse(s: &str) -> LoggerKind {
        match s {
            "console" => LoggerKind::Console,
            "logfmt" => LoggerKind::Logfmt,
            _ => LoggerKind::None,
        }
    }
}

#[derive(Clone, Copy, Debug, PartialEq, Eq, Hash)]
pub enum Build {
    Debug,
    Release,
}

impl Build {
    pub fn as_str(&self) -> &'static str {
        match self {
            Build::Debug => "debug",
            Build::Release => "release",
        }
    }
}

/// Configuration of the responder for one run.
#[derive(Clone, Debug)]
pub struct Config {
    pub mac: Mac,
    pub key: [u64; 2],
    pub self_ips: Option<Vec<IpAddr>>,
    pub deny: Option<Vec<IpAddr>>,
    pub logger: LoggerKind,
    pub level: u8,
    pub build: Build,
    /// hardware address of the interface the responder is bound to (None: no interface, as in
    /// the unit tests); it may differ from the configured MAC and must not matter
    pub iface: Option<Mac>,
    /// addresses configured on that interface (the host's own) and its flags: the responder is
    /// told about them like in production, and they must not matter either
    pub iface_ips: Vec<IpAddr>,
    pub iface_flags: u32,
}

impl Config {
    pub fn handles(&self, ip: &IpAddr) -> bool {
        match &self.self_ips {
            None => true,
            Some(v) => v.contains(ip),
        }
    }
    pub fn denied(&self, ip: &IpAddr) -> bool {
        match &self.deny {
            None => false,
            Some(v) => v.contains(ip),
        }
    }
    fn ips(v: &Option<Vec<IpAddr>>) -> String {
        match v {
            None => "-".to_string(),
            Some(v) if v.is_empty() => "-".to_string(),
            Some(v) => v
                .iter()
                .map(|i| i.to_string())
                .collect::<Vec<_>>()
                .join(","),
        }
    }
    pub fn to_json(&self) -> serde_json::Value {
        serde_json::json!({
            "mac": mac_str(&self.mac),
            "key": [format!("{:x}", self.key[0]), format!("{:x}", self.key[1])],
            "self_ips": self.self_ips.as_ref().map(|v| v.iter().map(|i| i.to_string()).collect::<Vec<_>>()),
            "deny": self.deny.as_ref().map(|v| v.iter().map(|i| i.to_string()).collect::<Vec<_>>()),
            "logger": self.logger.as_str(),
            "level": self.level,
            "build": self.build.as_str(),
            "iface": self.iface.as_ref().map(mac_str),
            "iface_ips": self.iface_ips.iter().map(|i| i.to_string()).collect::<Vec<_>>(),
            "iface_flags": self.iface_flags,
        })
    }
    pub fn from_json(v: &serde_json::Value) -> Option<Config> {
        let macs = v.get("mac")?.as_str()?;
        let mut mac = [0u8; 6];
        for (i, p) in macs.split(':').enumerate() {
            if i >= 6 {
                return None;
            }
            mac[i] = u8::from_str_radix(p, 16).ok()?;
        }
        let k = v.get("key")?.as_array()?;
        let key = [
            u64::from_str_radix(k.get(0)?.as_str()?, 16).ok()?,
            u64::from_str_radix(k.get(1)?.as_str()?, 16).ok()?,
        ];
        let ips = |x: Option<&serde_json::Value>| -> Option<Vec<IpAddr>> {
            let a = x?.as_array()?;
            Some(
                a.iter()
                    .filter_map(|s| s.as_str().and_then(|s| s.parse().ok()))
                    .collect(),
            )
        };
        Some(Config {
            mac,
            key,
            self_ips: ips(v.get("self_ips")),
            deny: ips(v.get("deny")),
            logger: LoggerKind::parse(v.get("logger")?.as_str()?),
            level: v.get("level")?.as_u64()? as u8,
            build: if v.get("build")?.as_str()? == "debug" {
                Build::Debug
            } else {
                Build::Release
            },
            iface: v.get("iface").and_then(|x| x.as_str()).and_then(|m| {
                let mut out = [0u8; 6];
                let parts: Vec<&str> = m.split(':').collect();
                if parts.len() != 6 {
                    return None;
                }
                for (i, p) in parts.iter().enumerate() {
                    out[i] = u8::from_str_radix(p, 16).ok()?;
                }
                Some(out)
            }),
            iface_ips: ips(v.get("iface_ips")).unwrap_or_default(),
            iface_flags: v.get("iface_flags").and_then(|x| x.as_u64()).unwrap_or(0) as u32,
        })
    }
}

/// What the node did with one delivered frame.
#[derive(Clone, Debug, PartialEq, Eq)]
pub struct Obs {
    pub reply: Option<Vec<u8>>,
    pub tcb_len: usize,
    /// event-log lines printed by the real loggers while handling the frame
    pub logs: Vec<String>,
    /// resident memory of the node process in KiB, sampled on every 2048th frame it handles
    /// (a measurement, not part of the deterministic history)
    pub rss_kb: Option<u64>,
}

#[derive(Clone, Debug, PartialEq, Eq)]
pub struct Death {
    /// "exit" (process gone) or "hang" (no answer within the watchdog)
    pub kind: String,
    pub status: Option<i32>,
    /// tail of stderr: panic message and location
    pub stderr: String,
}

pub struct NodeBins {
    pub debug: PathBuf,
    pub release: PathBuf,
    /// clock shim to preload into the node (None: not built, the node then only has the
    /// shadowed clock imports of the guarded hook)
    pub shim: Option<PathBuf>,
}

impl NodeBins {
    pub fn path(&self, b: Build) -> &Path {
        match b {
            Build::Debug => &self.debug,
            Build::Release => &self.release,
        }
    }
}

pub struct Node {
    child: Child,
    stdin: BufWriter<ChildStdin>,
    lines: Receiver<Option<String>>,
    stderr: Option<ChildStderr>,
    nonce: String,
    pub build: Build,
    dead: Option<Death>,
    pub frames: u64,
    watchdog: Duration,
}

impl Node {
    pub fn spawn(bins: &NodeBins, build: Build) -> std::io::Result<Node> {
        let mut cmd = Command::new(bins.path(build));
        if let Some(shim) = &bins.shim {
            cmd.env("LD_PRELOAD", shim);
        }
        let mut child = cmd
            .arg("--verif-driver")
            .env("RUST_BACKTRACE", "0")
            .stdin(Stdio::piped())
            .stdout(Stdio::piped())
            .stderr(Stdio::piped())
            .spawn()?;
        let stdin = BufWriter::new(child.stdin.take().unwrap());
        let stdout = child.stdout.take().unwrap();
        let stderr = child.stderr.take();
        let (tx, rx) = channel();
        std::thread::spawn(move || {
            let mut r = BufReader::with_capacity(1 << 16, stdout);
            loop {
                let mut buf = Vec::new();
                match r.read_until(b'\n', &mut buf) {
                    Ok(0) | Err(_) => {
                        let _ = tx.send(None);
                        break;
                    }
                    Ok(_) => {
                        if buf.last() == Some(&b'\n') {
                            buf.pop();
                        }
                        let s = String::from_utf8_lossy(&buf).into_owned();
                        if tx.send(Some(s)).is_err() {
                            break;
                        }
                    }
                }
            }
        });
        Ok(Node {
            child,
            stdin,
            lines: rx,
            stderr,
            nonce: String::new(),
            build,
            dead: None,
            frames: 0,
            watchdog: Duration::from_secs(8),
        })
    }

    pub fn is_dead(&self) -> bool {
        self.dead.is_some()
    }

    fn die(&mut self, kind: &str) -> Death {
        if let Some(d) = &self.dead {
            return d.clone();
        }
        let mut status = None;
        if kind == "hang" {
            let _ = self.child.kill();
        }
        if let Ok(st) = self.child.wait() {
            status = st.code();
        }
        let mut err = String::new();
        if let Some(mut e) = self.stderr.take() {
            let mut buf = Vec::new();
            let _ = e.read_to_end(&mut buf);
            err = String::from_utf8_lossy(&buf).into_owned();
        }
        // keep the tail: panic message and location
        let tail: String = {
            let lines: Vec<&str> = err.lines().filter(|l| !l.trim().is_empty()).collect();
            let n = lines.len();
            lines[n.saturating_sub(4)..].join(" | ")
        };
        // the OS thread id in the panic message is the only nondeterministic part: drop it
        let tail = {
            let mut t = tail;
            if let Some(a) = t.find("thread '") {
                if let Some(b) = t[a..].find("' (") {
                    let start = a + b + 1;
                    if let Some(c) = t[start..].find(')') {
                        t.replace_range(start..start + c + 1, "");
                    }
                }
            }
            t
        };
        let d = Death {
            kind: kind.to_string(),
            status,
            stderr: tail,
        };
        self.dead = Some(d.clone());
        d
    }

    fn send(&mut self, line: &str) -> Result<(), Death> {
        if let Some(d) = &self.dead {
            return Err(d.clone());
        }
        let ok = self
            .stdin
            .write_all(line.as_bytes())
            .and_then(|_| self.stdin.write_all(b"\n"))
            .and_then(|_| self.stdin.flush());
        if ok.is_err() {
            return Err(self.die("exit"));
        }
        Ok(())
    }

    /// Read lines until one carries the nonce; returns (answer without nonce, log lines before it).
    fn answer(&mut self) -> Result<(String, Vec<String>), Death> {
        let mut logs = Vec::new();
        loop {
            match self.lines.recv_timeout(self.watchdog) {
                Ok(Some(l)) => {
                    if l.len() > self.nonce.len()
                        && l.starts_with(&self.nonce)
                        && l.as_bytes()[self.nonce.len()] == b' '
                    {
                        return Ok((l[self.nonce.len() + 1..].to_string(), logs));
                    }
                    logs.push(l);
                }
                Ok(None) => return Err(self.die("exit")),
                Err(RecvTimeoutError::Timeout) => return Err(self.die("hang")),
                Err(RecvTimeoutError::Disconnected) => return Err(self.die("exit")),
            }
        }
    }

    /// (Re)configure: fresh Masscanned, loggers, level, empty table. Returns the init log lines.
    pub fn configure(&mut self, cfg: &Config, clock_ms: u64, nonce: &str) -> Result<Vec<String>, Death> {
        self.nonce = nonce.to_string();
        self.send(&format!("T {}", clock_ms))?;
        self.send(&format!(
            "C {} {:x} {:x} {} {} {} {} {} {}",
            mac_str(&cfg.mac),
            cfg.key[0],
            cfg.key[1],
            Config::ips(&cfg.self_ips),
            Config::ips(&cfg.deny),
            cfg.logger.as_str(),
            cfg.level,
            nonce,
            match &cfg.iface {
                None => "-".to_string(),
                Some(m) if cfg.iface_ips.is_empty() && cfg.iface_flags == 0 => mac_str(m),
                Some(m) => format!(
                    "{}/{}/{:x}",
                    mac_str(m),
                    if cfg.iface_ips.is_empty() { "-".to_string() } else { cfg.iface_ips.iter().map(|i| i.to_string()).collect::<Vec<_>>().join(",") },
                    cfg.iface_flags
                ),
            }
        ))?;
        let (a, logs) = self.answer()?;
        if a != "C ok" {
            return Err(Death {
                kind: "protocol".into(),
                status: None,
                stderr: format!("unexpected answer to C: {}", a),
            });
        }
        Ok(logs)
    }

    pub fn set_clock(&mut self, ms: u64) -> Result<(), Death> {
        self.send(&format!("T {}", ms))
    }

    pub fn set_mono(&mut self, us: u64) -> Result<(), Death> {
        self.send(&format!("M {}", us))
    }

    pub fn frame(&mut self, f: &[u8]) -> Result<Obs, Death> {
        self.frames += 1;
        self.send(&format!("F {}", hex(f)))?;
        let (a, logs) = self.answer()?;
        let mut it = a.split(' ');
        if it.next() != Some("R") {
            return Err(Death {
                kind: "protocol".into(),
                status: None,
                stderr: format!("unexpected answer to F: {}", a),
            });
        }
        let r = it.next().unwrap_or("-");
        let reply = if r == "-" { None } else { unhex(r) };
        let tcb_len = it.next().and_then(|x| x.parse().ok()).unwrap_or(usize::MAX);
        let rss_kb = if self.frames % 2048 == 0 { self.rss_kb() } else { None };
        Ok(Obs {
            reply,
            tcb_len,
            logs,
            rss_kb,
        })
    }

    /// Resident set size of the node process (KiB), from /proc.
    pub fn rss_kb(&self) -> Option<u64> {
        let t = std::fs::read_to_string(format!("/proc/{}/statm", self.child.id())).ok()?;
        let pages: u64 = t.split(' ').nth(1)?.parse().ok()?;
        Some(pages * 4)
    }

    pub fn soft_reset(&mut self) -> Result<(), Death> {
        self.send("X")?;
        let (a, _) = self.answer()?;
        if a != "X ok" {
            return Err(Death {
                kind: "protocol".into(),
                status: None,
                stderr: format!("unexpected answer to X: {}", a),
            });
        }
        Ok(())
    }

    /// (proto_id, smack_state, proto_state kind) of the table entry keyed by `cookie`
    pub fn probe_tcb(&mut self, cookie: u32) -> Result<Option<(u64, u64, u64)>, Death> {
        self.send(&format!("P tcb {}", cookie))?;
        let (a, _) = self.answer()?;
        let v: Vec<&str> = a.split(' ').collect();
        if v.len() == 4 && v[0] == "P" {
            Ok(Some((
                v[1].parse().unwrap_or(u64::MAX),
                v[2].parse().unwrap_or(u64::MAX),
                v[3].parse().unwrap_or(u64::MAX),
            )))
        } else {
            Ok(None)
        }
    }

    /// step the protocol matcher: (id, new state)
    pub fn probe_step(&mut self, state: u64, byte: Option<u8>) -> Result<(u64, u64), Death> {
        let b = match byte {
            Some(b) => b.to_string(),
            None => "$".to_string(),
        };
        self.send(&format!("P step {} {}", state, b))?;
        let (a, _) = self.answer()?;
        let v: Vec<&str> = a.split(' ').collect();
        if v.len() == 3 && v[0] == "P" {
            Ok((v[1].parse().unwrap_or(u64::MAX), v[2].parse().unwrap_or(u64::MAX)))
        } else {
            Err(Death {
                kind: "protocol".into(),
                status: None,
                stderr: format!("unexpected answer to P step: {}", a),
            })
        }
    }

    pub fn kill(&mut self) {
        if self.dead.is_none() {
            let _ = self.child.kill();
            let _ = self.child.wait();
            self.dead = Some(Death {
                kind: "killed".into(),
                status: None,
                stderr: String::new(),
            });
        }
    }
}

impl Drop for Node {
    fn drop(&mut self) {
        if self.dead.is_none() {
            let _ = self.stdin.write_all(b"Q\n");
            let _ = self.stdin.flush();
            let _ = self.child.kill();
            let _ = self.child.wait();
        }
    }
}
