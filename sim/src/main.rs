//! mcsim - deterministic simulation with fault injection for masscanned.
//!
//!   mcsim check <PROP> [quick|thorough]     seeded search; writes evidence/<PROP>.json
//!   mcsim replay <file>                     re-execute a replay file and re-judge it
//!   mcsim determinism [runs]                run seeds twice and compare event-log hashes
//!   mcsim trace <PROP> <seed-index>         print one run (schedule, verdicts)
//!
//! Exit codes: 0 held, 1 violation (VIOLATION line printed), 2 harness error.

mod apps;
mod directed;
mod exec;
mod model;
mod node;
mod oracle;
mod report;
mod rng;
mod shrink;
mod wire;
mod world;

use std::collections::{BTreeMap, BTreeSet};
use std::path::{Path, PathBuf};
use std::sync::atomic::{AtomicBool, AtomicU64, Ordering};
use std::sync::mpsc::channel;
use std::sync::Arc;
use std::time::Instant;

use serde_json::{json, Value};

use exec::{ExecError, Executor, History, Step};
use node::{Build, NodeBins};
use oracle::{Aux, Tally, Violation};
use report::*;
use world::net::FaultStats;
use world::plan::Focus;

fn env_u64(k: &str, d: u64) -> u64 {
    std::env::var(k).ok().and_then(|v| v.parse().ok()).unwrap_or(d)
}

fn root() -> PathBuf {
    PathBuf::from(std::env::var("VERIF_ROOT").unwrap_or_else(|_| "/verif".into()))
}

fn bins() -> NodeBins {
    let base = root().join(".cache/node");
    NodeBins {
        debug: std::env::var("MCSIM_NODE_DEBUG")
            .map(PathBuf::from)
            .unwrap_or_else(|_| base.join("debug/masscanned")),
        release: std::env::var("MCSIM_NODE_RELEASE")
            .map(PathBuf::from)
            .unwrap_or_else(|_| base.join("release/masscanned")),
        shim: {
            let p = root().join(".cache/clock_shim.so");
            if p.exists() && std::env::var("VERIF_NO_SHIM").is_err() {
                Some(p)
            } else {
                None
            }
        },
    }
}

pub struct RunResult {
    pub idx: u64,
    pub seed: u64,
    pub violations: Vec<Violation>,
    pub tally: Tally,
    pub faults: FaultStats,
    pub sim_us: u64,
    pub frames: usize,
    pub replies: usize,
    pub shape: u64,
    pub hist: Option<History>,
    pub actors: Vec<String>,
    pub crashed: bool,
    pub cfg_cell: String,
    pub log_hash: u64,
    pub harness_error: Option<String>,
}

/// FNV over everything observable of a run (every step, reply byte, table size, log line).
pub fn event_log_hash(h: &History) -> u64 {
    let mut x: u64 = 0xcbf29ce484222325;
    let mut mix = |b: &[u8]| {
        for c in b {
            x ^= *c as u64;
            x = x.wrapping_mul(0x100000001b3);
        }
        x ^= 0xff;
        x = x.wrapping_mul(0x100000001b3);
    };
    mix(h.config.to_json().to_string().as_bytes());
    for r in &h.recs {
        mix(r.step.to_json().to_string().as_bytes());
        if let Some(o) = &r.obs {
            match &o.reply {
                Some(b) => mix(b),
                None => mix(b"-"),
            }
            mix(&o.tcb_len.to_le_bytes());
            for l in &o.logs {
                mix(l.as_bytes());
            }
        }
    }
    if let Some((i, d)) = &h.death {
        mix(&i.to_le_bytes());
        mix(d.stderr.as_bytes());
    }
    x
}

fn one_run(
    prop: &str,
    idx: u64,
    seed: u64,
    focus: &Focus,
    exec: &mut Executor,
    aux_exec: &mut Executor,
    aux_samples: usize,
    keep_hist: bool,
) -> RunResult {
    let mut res = RunResult {
        idx,
        seed,
        violations: Vec::new(),
        tally: Tally::default(),
        faults: FaultStats::default(),
        sim_us: 0,
        frames: 0,
        replies: 0,
        shape: 0,
        hist: None,
        actors: Vec::new(),
        crashed: false,
        cfg_cell: String::new(),
        log_hash: 0,
        harness_error: None,
    };
    let (plan, out) = match world::sim::simulate(seed, focus, exec) {
        Ok(x) => x,
        Err(ExecError::Harness(e)) => {
            res.harness_error = Some(e);
            return res;
        }
    };
    res.faults = out.faults.clone();
    res.sim_us = out.sim_us;
    res.shape = out.shape;
    res.actors = out.actors.clone();
    res.frames = out.hist.frames();
    res.replies = out
        .hist
        .recs
        .iter()
        .filter(|r| r.obs.as_ref().map(|o| o.reply.is_some()).unwrap_or(false))
        .count();
    res.cfg_cell = format!(
        "S={} D={} log={} lvl={} {}",
        plan.cfg.self_ips.is_some() as u8,
        plan.cfg.deny.is_some() as u8,
        plan.cfg.logger.as_str(),
        plan.cfg.level,
        plan.cfg.build.as_str()
    );
    res.log_hash = event_log_hash(&out.hist);
    res.crashed = out.hist.death.is_some();
    if res.crashed && prop != "C01" {
        // a crash is C01's finding; this run is not judged for other properties
        if keep_hist {
            res.hist = Some(out.hist);
        }
        return res;
    }
    let mut aux = Aux {
        exec: aux_exec,
        nonce: format!("#{:016x}a", rng::derive(seed, "nonce", 0)),
        harness_error: None,
        samples: aux_samples,
        pick: rng::derive(seed, "aux", 0),
    };
    res.violations = oracle::judge(prop, &out.hist, &mut aux, &mut res.tally);
    if let Some(e) = aux.harness_error {
        res.harness_error = Some(e);
    }
    if keep_hist || !res.violations.is_empty() {
        res.hist = Some(out.hist);
    }
    res
}

struct Budget {
    runs: u64,
    aux_samples: usize,
    wall_cap_s: u64,
}

fn budget(prop: &str, tier: &str) -> Budget {
    let thorough = tier == "thorough";
    let aux = match prop {
        "C08" => 12,
        "C06" | "C10" | "C11" | "C19" => 4,
        _ => 0,
    };
    let mut runs = if thorough { 500_000 } else { 4_000 };
    if prop == "C08" {
        runs = if thorough { 150_000 } else { 3_000 };
    }
    if prop == "C10" {
        runs = if thorough { 150_000 } else { 2_000 };
    }
    if prop == "C09" || prop == "C11" {
        runs = if thorough { 200_000 } else { 2_500 };
    }
    Budget {
        runs: env_u64("VERIF_RUNS", runs),
        aux_samples: aux,
        wall_cap_s: env_u64("VERIF_WALL_CAP_S", if thorough { 3000 } else { 240 }),
    }
}

fn known_match<'a>(known: &'a [KnownFinding], prop: &str, key: &str) -> Option<&'a KnownFinding> {
    known.iter().find(|k| k.property == prop && k.key == key && k.status == "known")
}

fn cmd_check(prop: &str, tier: &str) -> i32 {
    let t0 = Instant::now();
    let base_seed = env_u64("VERIF_SEED", 1);
    let workers = env_u64("VERIF_WORKERS", 16).max(1) as usize;
    let b = budget(prop, tier);
    let bins = Arc::new(bins());
    for p in [&bins.debug, &bins.release] {
        if !p.exists() {
            eprintln!("HARNESS-ERROR node binary missing: {}", p.display());
            return 2;
        }
    }
    let known = load_known(&root().join("known_findings.json"));
    let mut known_lines: BTreeSet<String> = BTreeSet::new();
    let mut known_hits: BTreeMap<String, u64> = BTreeMap::new();
    let mut violations_out: Vec<(Violation, PathBuf)> = Vec::new();
    let mut harness_errors: Vec<String> = Vec::new();

    // 1. known findings of this property: re-execute their committed schedules first
    {
        let mut e1 = Executor::new(&bins);
        let mut e2 = Executor::new(&bins);
        for k in known.iter().filter(|k| k.property == prop && k.status == "known") {
            if let Some(rp) = &k.replay {
                match ReplayFile::load(&root().join(rp)) {
                    Ok(rf) => match replay_fires(&rf, &mut e1, &mut e2) {
                        Ok(Some(_)) => {
                            known_lines.insert(format!("KNOWN-FINDING: property={} {} [{}]", prop, k.what, k.key));
                        }
                        Ok(None) => println!(
                            "note: known finding {} [{}] no longer reproduces from {}",
                            prop, k.key, rp
                        ),
                        Err(e) => harness_errors.push(e),
                    },
                    Err(e) => harness_errors.push(e),
                }
            }
        }
    }

    // 1b. regression schedules of repaired defects (status=fixed): they suppress nothing; any
    //     violation of this property on them is reported again
    let mut regress_count = 0u64;
    {
        let mut e1 = Executor::new(&bins);
        let mut e2 = Executor::new(&bins);
        let mut files: Vec<PathBuf> = std::fs::read_dir(root().join("regress"))
            .map(|d| d.filter_map(|e| e.ok().map(|e| e.path())).collect())
            .unwrap_or_default();
        files.sort();
        for f in files {
            let name = f.file_name().and_then(|n| n.to_str()).unwrap_or("").to_string();
            if !name.starts_with(&format!("{}-", prop)) || !name.ends_with(".json") {
                continue;
            }
            regress_count += 1;
            match ReplayFile::load(&f) {
                Ok(rf) => {
                    let nonce = format!("#{:016x}", rng::derive(rf.seed, "regress", 0));
                    match e1.run(&rf.config, rf.start_ms, &nonce, &rf.steps) {
                        Ok(h) => {
                            let mut t = Tally::default();
                            let mut aux = Aux {
                                exec: &mut e2,
                                nonce: format!("{}a", nonce),
                                harness_error: None,
                                samples: 100_000,
                                pick: rf.pick,
                            };
                            let vs = oracle::judge(prop, &h, &mut aux, &mut t);
                            if let Some(e) = aux.harness_error {
                                harness_errors.push(e);
                            }
                            for v in vs {
                                if known_match(&known, prop, &v.key).is_some() {
                                    continue;
                                }
                                if !violations_out.iter().any(|(x, _)| x.key == v.key) && violations_out.len() < 5 {
                                    println!("regression: {} fires again on {}", v.key, f.display());
                                    violations_out.push((v, f.clone()));
                                }
                            }
                        }
                        Err(ExecError::Harness(e)) => harness_errors.push(e),
                    }
                }
                Err(e) => harness_errors.push(e),
            }
        }
    }

    // 2. directed scenarios (deterministic sweeps driven through the same node and oracles)
    let mut total = Tally::default();
    let mut directed_count = 0u64;
    {
        let mut e1 = Executor::new(&bins);
        let mut e2 = Executor::new(&bins);
        let scen = directed::scenarios(prop, tier, base_seed);
        for sc in scen {
            let (name, cfg, start_ms, steps, sc_samples) = (sc.name, sc.cfg, sc.start_ms, sc.steps, sc.samples);
            directed_count += 1;
            let nonce = format!("#{:016x}", rng::derive(base_seed, &name, 7));
            match e1.run(&cfg, start_ms, &nonce, &steps) {
                Ok(h) => {
                    if h.death.is_some() && prop != "C01" {
                        continue;
                    }
                    let mut aux = Aux {
                        exec: &mut e2,
                        nonce: format!("{}a", nonce),
                        harness_error: None,
                        samples: if b.aux_samples > 0 { sc_samples.max(b.aux_samples) } else { 0 },
                        pick: rng::derive(base_seed, &name, 8),
                    };
                    let vs = oracle::judge(prop, &h, &mut aux, &mut total);
                    if let Some(e) = aux.harness_error {
                        harness_errors.push(e);
                    }
                    for v in vs {
                        if let Some(k) = known_match(&known, prop, &v.key) {
                            *known_hits.entry(v.key.clone()).or_insert(0) += 1;
                            known_lines.insert(format!("KNOWN-FINDING: property={} {} [{}]", prop, k.what, k.key));
                        } else if !violations_out.iter().any(|(x, _)| x.key == v.key) && violations_out.len() < 5 {
                            let eff = if b.aux_samples > 0 { sc_samples.max(b.aux_samples) } else { 0 };
                            if let Some(path) = report_violation(&bins, prop, &v, &h, 0, violations_out.len(), eff, &[format!("directed scenario {}", name)], rng::derive(base_seed, &name, 8)) {
                                violations_out.push((v, path));
                            }
                        }
                    }
                }
                Err(ExecError::Harness(e)) => harness_errors.push(e),
            }
        }
    }

    // 3. seeded search
    let focus = Arc::new(Focus::for_property(prop));
    let next = Arc::new(AtomicU64::new(0));
    let stop = Arc::new(AtomicBool::new(false));
    let (tx, rx) = channel::<RunResult>();
    let mut handles = Vec::new();
    for _ in 0..workers.min(b.runs.max(1) as usize) {
        let (bins, focus, next, stop, tx) = (bins.clone(), focus.clone(), next.clone(), stop.clone(), tx.clone());
        let prop = prop.to_string();
        let runs = b.runs;
        let aux_samples = b.aux_samples;
        handles.push(std::thread::spawn(move || {
            let mut exec = Executor::new(&bins);
            let mut aux = Executor::new(&bins);
            loop {
                if stop.load(Ordering::Relaxed) {
                    break;
                }
                let idx = next.fetch_add(1, Ordering::SeqCst);
                if idx >= runs {
                    break;
                }
                let seed = rng::derive(base_seed, &prop, idx);
                let r = one_run(&prop, idx, seed, &focus, &mut exec, &mut aux, aux_samples, idx < 3);
                if tx.send(r).is_err() {
                    break;
                }
            }
        }));
    }
    drop(tx);
    let mut results: BTreeMap<u64, RunResult> = BTreeMap::new();
    for r in rx {
        if r.harness_error.is_some() && harness_errors.len() < 5 {
            harness_errors.push(r.harness_error.clone().unwrap());
        }
        results.insert(r.idx, r);
        if t0.elapsed().as_secs() > b.wall_cap_s {
            stop.store(true, Ordering::Relaxed);
        }
    }
    for h in handles {
        let _ = h.join();
    }

    // 4. aggregate in run order (deterministic whatever the worker count)
    let mut faults = FaultStats::default();
    let mut sim_us = 0u64;
    let mut frames = 0u64;
    let mut replies = 0u64;
    let mut shapes: BTreeSet<u64> = BTreeSet::new();
    let mut cells: BTreeMap<String, u64> = BTreeMap::new();
    let mut crashed = 0u64;
    let mut samples: Vec<Value> = Vec::new();
    let mut log_hash = 0u64;
    let nruns = results.len() as u64;
    for (_, r) in results.iter() {
        total.merge(&r.tally);
        faults.merge(&r.faults);
        sim_us += r.sim_us;
        frames += r.frames as u64;
        replies += r.replies as u64;
        shapes.insert(r.shape);
        *cells.entry(r.cfg_cell.clone()).or_insert(0) += 1;
        log_hash = log_hash.rotate_left(5) ^ r.log_hash;
        if r.crashed {
            crashed += 1;
        }
        if samples.len() < 2 {
            if let Some(h) = &r.hist {
                samples.push(json!({
                    "run": r.idx, "seed": r.seed, "config": h.config.to_json(),
                    "actors": r.actors, "schedule": sample_history(h, 14),
                }));
            }
        }
        for v in &r.violations {
            if let Some(k) = known_match(&known, prop, &v.key) {
                *known_hits.entry(v.key.clone()).or_insert(0) += 1;
                known_lines.insert(format!("KNOWN-FINDING: property={} {} [{}]", prop, k.what, k.key));
                continue;
            }
            if violations_out.iter().any(|(x, _)| x.key == v.key) || violations_out.len() >= 5 {
                continue;
            }
            if let Some(h) = &r.hist {
                let mut ft: Vec<String> = r.faults.fired.iter().map(|(k, n)| format!("{} x{}", k, n)).collect();
                ft.extend(r.actors.iter().cloned());
                if let Some(path) = report_violation(&bins, prop, v, h, r.seed, violations_out.len(), b.aux_samples, &ft, rng::derive(r.seed, "aux", 0)) {
                    violations_out.push((v.clone(), path));
                }
            }
        }
    }
    let wall = t0.elapsed().as_secs_f64();

    // 5. evidence
    let distinct = total.sigs.len() as u64;
    let level = level_for(prop);
    let ev = json!({
        "property_id": prop,
        "tier": if tier == "thorough" { "thorough" } else { "quick" },
        "seed": base_seed,
        "level": level,
        "wall_s": wall,
        "violations": violations_out.len(),
        "coverage": {
            "evaluations": total.evals.max(1),
            "distinct_nontrivial": distinct,
            "rule": "cases = oracle evaluations of this property on frames delivered to the real node inside seeded simulated runs (plan, workload, schedule and faults all drawn from one PRNG per run) plus directed sweeps; a case is non-trivial when the oracle made a definite judgement (must reply / must stay silent / reply must satisfy constraints) rather than don't-care; distinct = distinct behaviour signatures (layer path, model state of the flow, flag/size/edge class, configuration cell where relevant) among the non-trivial cases",
            "samples": samples,
            "simulated_runs": nruns,
            "directed_scenarios": directed_count,
            "regression_schedules_reexecuted": regress_count,
            "runs_per_hour": if wall > 0.0 { (nruns as f64 / wall * 3600.0) as u64 } else { 0 },
            "simulated_seconds": sim_us / 1_000_000,
            "delivered_frames": frames,
            "replies": replies,
            "judged_silent": total.silent,
            "judged_reply": total.reply,
            "dont_care": total.any,
            "dont_care_reasons": top(&total.any_why, 12),
            "distinct_run_shapes": shapes.len(),
            "fault_firings": faults.fired,
            "rare_condition_probes": total.probes,
            "configuration_cells": cells.len(),
            "runs_aborted_by_node_crash": crashed,
            "known_finding_hits": known_hits,
            "top_signatures": top(&total.sigs, 25),
            "event_log_hash": format!("{:016x}", log_hash),
            "workers": workers,
            "components_real": ["reply() and everything below it: L2-L4, SYN cookie, connection table, smack matcher, all protocol handlers, both loggers, pnet packet code, chrono/flate2/siphasher - built from /repo's working tree with --cfg masscanned_verif (debug and release)"],
            "components_stubbed": ["pnet datalink rx/tx and the receive loop body (mirrored by the driver)", "CLI and IP-list file parsing (configuration injected); the bound network interface is described by the driver (hardware address, its own addresses, flags) instead of being read from the operating system", "clock sources: wall clock and monotonic clock are simulated (shadowed imports in the guarded hook, plus an LD_PRELOAD shim answering clock_gettime/gettimeofday/time for every other read)", "stderr log back-end (formatting sink)"],
        },
        "assumptions": [
            "a clean batch is evidence, not proof: seeded sampling of schedules, faults, inputs and configurations",
            "the independent dissectors/decoders of the simulator (wire.rs, apps/*) are the trusted base of the oracles",
            "frames are at most 4096 bytes (capture buffer)",
            "resident memory of the node process (C09 memory rule) is a measurement read from /proc beside the deterministic history; it is not part of the replayed observations",
        ],
    });
    let evp = root().join("evidence").join(format!("{}.json", prop));
    let _ = std::fs::create_dir_all(evp.parent().unwrap());
    if let Err(e) = std::fs::write(&evp, serde_json::to_string_pretty(&ev).unwrap() + "\n") {
        eprintln!("HARNESS-ERROR cannot write {}: {}", evp.display(), e);
        return 2;
    }
    for l in &known_lines {
        println!("{}", l);
    }
    println!(
        "{} {}: {} runs + {} directed, {} frames, {} evaluations ({} distinct non-trivial), {} aborted by crash, {:.1}s",
        prop, tier, nruns, directed_count, frames, total.evals, distinct, crashed, wall
    );
    if !harness_errors.is_empty() {
        for e in harness_errors.iter().take(3) {
            eprintln!("HARNESS-ERROR {}", e);
        }
        return 2;
    }
    if !violations_out.is_empty() {
        for (v, p) in &violations_out {
            println!("violation {} rule={} key={} step={}: {}", v.prop, v.rule, v.key, v.step, v.detail);
            println!("VIOLATION property={} replay={}", v.prop, p.display());
        }
        return 1;
    }
    0
}

fn level_for(prop: &str) -> &'static str {
    match prop {
        "C01" | "C06" | "C11" => "fault_enumeration",
        _ => "exploration",
    }
}

/// Minimise, write the replay file, confirm it in a fresh executor; returns the path.
fn report_violation(
    bins: &NodeBins,
    prop: &str,
    v: &Violation,
    h: &History,
    seed: u64,
    n: usize,
    aux_samples: usize,
    fault_trace: &[String],
    pick: u64,
) -> Option<PathBuf> {
    let mut e1 = Executor::new(bins);
    let mut e2 = Executor::new(bins);
    let steps = h.steps();
    let original = steps.len();
    let nonce = format!("#{:016x}", rng::derive(seed, "shrink", 0));
    let mut sh = shrink::Shrinker {
        exec: &mut e1,
        aux: &mut e2,
        cfg: h.config.clone(),
        start_ms: h.start_ms,
        prop: prop.to_string(),
        key: v.key.clone(),
        nonce,
        pick,
        samples: if aux_samples > 0 { aux_samples.max(4096) } else { 0 },
        executions: 0,
        budget: 400,
        deadline: Instant::now() + std::time::Duration::from_secs(90),
    };
    // The simulation is deterministic: a violation is a property of (schedule, code). One that does
    // not fire again when its recorded schedule is re-executed on fresh nodes (three attempts) was an
    // event of the machine this check runs on - a node process starved past the watchdog on an
    // overloaded host, or killed from outside - and is not reported (a replay file that does not
    // reproduce would be worthless anyway).
    let mut confirmed = false;
    for _ in 0..3 {
        if let Ok(Some(_)) = sh.fires(&steps) {
            confirmed = true;
            break;
        }
    }
    if !confirmed {
        println!(
            "NOTE: an observation of {} [{}] at step {} did not recur in three re-executions of its schedule on fresh nodes: machine event, not reported ({})",
            prop, v.key, v.step, v.detail.chars().take(160).collect::<String>()
        );
        return None;
    }
    let min = sh.minimise(steps.clone()).unwrap_or(steps.clone());
    let (detail, final_steps) = match sh.fires(&min) {
        Ok(Some((v2, _))) => (v2.detail, min),
        _ => (v.detail.clone(), steps),
    };
    let rf = ReplayFile {
        property: prop.to_string(),
        rule: v.rule.clone(),
        key: v.key.clone(),
        seed,
        config: h.config.clone(),
        start_ms: h.start_ms,
        steps: final_steps,
        detail,
        fault_trace: fault_trace.to_vec(),
        original_steps: original,
        pick,
    };
    let path = replay_path(&root(), v, seed, n);
    if let Err(e) = rf.save(&path) {
        eprintln!("HARNESS-ERROR cannot write {}: {}", path.display(), e);
    }
    Some(path)
}

fn replay_fires(rf: &ReplayFile, e1: &mut Executor, e2: &mut Executor) -> Result<Option<Violation>, String> {
    let nonce = format!("#{:016x}", rng::derive(rf.seed, "replay", 0));
    let h = e1
        .run(&rf.config, rf.start_ms, &nonce, &rf.steps)
        .map_err(|e| format!("{:?}", e))?;
    let mut t = Tally::default();
    let mut aux = Aux {
        exec: e2,
        nonce: format!("{}a", nonce),
        harness_error: None,
        // a replay judges every candidate of the (minimised) schedule
        samples: 100_000,
        pick: rf.pick,
    };
    let vs = oracle::judge(&rf.property, &h, &mut aux, &mut t);
    if let Some(e) = aux.harness_error {
        return Err(e);
    }
    Ok(vs.into_iter().find(|v| v.key == rf.key))
}

fn cmd_replay(path: &str) -> i32 {
    let rf = match ReplayFile::load(Path::new(path)) {
        Ok(r) => r,
        Err(e) => {
            eprintln!("HARNESS-ERROR {}", e);
            return 2;
        }
    };
    let bins = bins();
    let mut e1 = Executor::new(&bins);
    let mut e2 = Executor::new(&bins);
    match replay_fires(&rf, &mut e1, &mut e2) {
        Ok(Some(v)) => {
            println!("reproduced {} rule={} key={} step={}: {}", v.prop, v.rule, v.key, v.step, v.detail);
            println!("VIOLATION property={} replay={}", rf.property, path);
            1
        }
        Ok(None) => {
            println!("not reproduced: {} [{}] does not fire on the current tree", rf.property, rf.key);
            0
        }
        Err(e) => {
            eprintln!("HARNESS-ERROR {}", e);
            2
        }
    }
}

/// Run seeds twice (fresh executors) and compare the complete event-log hashes.
fn cmd_determinism(n: u64) -> i32 {
    let bins = bins();
    let base_seed = env_u64("VERIF_SEED", 1);
    let mut bad = 0;
    let props = ["C01", "C07", "C11", "C12", "C20", "C09"];
    let mut hashes = Vec::new();
    for pass in 0..2 {
        let mut exec = Executor::new(&bins);
        let mut aux = Executor::new(&bins);
        let mut v = Vec::new();
        for i in 0..n {
            let prop = props[(i % props.len() as u64) as usize];
            let focus = Focus::for_property(prop);
            let seed = rng::derive(base_seed, prop, i + 1_000_000 * env_u64("VERIF_DET_OFFSET", 0));
            let r = one_run(prop, i, seed, &focus, &mut exec, &mut aux, 2, false);
            if let Some(e) = r.harness_error {
                eprintln!("HARNESS-ERROR {}", e);
                return 2;
            }
            v.push((seed, r.log_hash, r.violations.len(), r.tally.evals));
        }
        hashes.push(v);
        let _ = pass;
    }
    let mut x = 0u64;
    for (a, b) in hashes[0].iter().zip(hashes[1].iter()) {
        if a != b {
            bad += 1;
            println!("NONDETERMINISM seed {:#x}: {:?} vs {:?}", a.0, a, b);
        }
        x = x.rotate_left(7) ^ a.1;
    }
    println!("determinism: {} seeds x 2 executions, {} divergences, combined hash {:016x}", n, bad, x);
    if bad > 0 {
        2
    } else {
        0
    }
}

fn cmd_trace(prop: &str, idx: u64) -> i32 {
    let bins = bins();
    let base_seed = env_u64("VERIF_SEED", 1);
    let focus = Focus::for_property(prop);
    let seed = rng::derive(base_seed, prop, idx);
    let mut exec = Executor::new(&bins);
    let mut aux = Executor::new(&bins);
    let r = one_run(prop, idx, seed, &focus, &mut exec, &mut aux, budget(prop, "quick").aux_samples, true);
    println!("seed {:#x} cell {} frames {} replies {} sim {}us", seed, r.cfg_cell, r.frames, r.replies, r.sim_us);
    for a in &r.actors {
        println!("  actor {}", a);
    }
    println!("  faults {:?}", r.faults.fired);
    if let Some(h) = &r.hist {
        for l in sample_history(h, 400) {
            println!("  {}", l);
        }
        if let Some((i, d)) = &h.death {
            println!("  DEATH at {}: {:?}", i, d);
        }
    }
    for v in &r.violations {
        println!("  VIOL {} {} {} @{}: {}", v.prop, v.rule, v.key, v.step, v.detail);
    }
    println!("  tally evals={} silent={} reply={} any={} sigs={}", r.tally.evals, r.tally.silent, r.tally.reply, r.tally.any, r.tally.sigs.len());
    0
}

/// Offline helper: search tuples whose SYN cookie under the production key [0,0] has a given
/// value (only used to aim directed scenarios; the oracles never trust the prediction).
fn cmd_hunt_cookie(target_hex: &str, v6: bool) -> i32 {
    use std::net::{IpAddr, Ipv4Addr, Ipv6Addr};
    use std::sync::atomic::{AtomicBool, Ordering};
    let target = u32::from_str_radix(target_hex.trim_start_matches("0x"), 16).unwrap_or(0xffff_ffff);
    let key = [0u64, 0u64];
    let done = Arc::new(AtomicBool::new(false));
    let mut hs = Vec::new();
    for w in 0..16u32 {
        let done = done.clone();
        hs.push(std::thread::spawn(move || {
            let dst4 = IpAddr::V4(Ipv4Addr::new(10, 0, 0, 1));
            let dst6 = IpAddr::V6(Ipv6Addr::new(0x2001, 0xdb8, 0, 0, 0, 0, 0, 1));
            let mut n: u64 = 0;
            for hi in 0..=u32::MAX {
                if done.load(Ordering::Relaxed) {
                    return;
                }
                let x = hi.wrapping_mul(16).wrapping_add(w);
                for sport in [40000u16, 40001, 40002, 40003] {
                    let (src, dst) = if v6 {
                        (IpAddr::V6(Ipv6Addr::new(0x2001, 0xdb8, 0xffff, 0, 0, 0, (x >> 16) as u16, x as u16)), dst6)
                    } else {
                        (IpAddr::V4(Ipv4Addr::from(0xc000_0000u32 | (x & 0x0fff_ffff))), dst4)
                    };
                    n += 1;
                    if directed::predict_cookie(&key, &src, &dst, sport, 80) == target {
                        println!("cookie {:#010x}: {} : {} -> {} : 80 (worker {}, {} trials)", target, src, sport, dst, w, n);
                        done.store(true, Ordering::Relaxed);
                        return;
                    }
                }
            }
        }));
    }
    for h in hs {
        let _ = h.join();
    }
    0
}

fn main() {
    let args: Vec<String> = std::env::args().collect();
    let code = match args.get(1).map(|s| s.as_str()) {
        Some("check") if args.len() >= 3 => {
            let tier = args
                .get(3)
                .cloned()
                .or_else(|| std::env::var("VERIF_TIER").ok())
                .unwrap_or_else(|| "quick".into());
            cmd_check(&args[2], &tier)
        }
        Some("replay") if args.len() >= 3 => cmd_replay(&args[2]),
        Some("determinism") => cmd_determinism(args.get(2).and_then(|x| x.parse().ok()).unwrap_or(200)),
        Some("trace") if args.len() >= 4 => cmd_trace(&args[2], args[3].parse().unwrap_or(0)),
        Some("hunt-cookie") if args.len() >= 3 => cmd_hunt_cookie(&args[2], args.get(3).map(|s| s == "v6").unwrap_or(false)),
        _ => {
            eprintln!("usage: mcsim check <PROP> [quick|thorough] | replay <file> | determinism [n] | trace <PROP> <idx>");
            2
        }
    };
    let _ = (Build::Debug, Step::Soft);
    std::process::exit(code);
}
