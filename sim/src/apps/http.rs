//! HTTP/1.x requests: reference recogniser for the request grammar of C13,
//! generator (valid requests and single-fault corruptions) and response checker.

use crate::rng::Rng;

pub const METHODS: [&str; 9] = [
    "GET", "PUT", "POST", "HEAD", "DELETE", "CONNECT", "OPTIONS", "TRACE", "PATCH",
];

#[derive(Clone, Debug, PartialEq, Eq)]
pub enum HttpClass {
    /// a complete request of the grammar; `end` = number of bytes it spans
    Complete { end: usize, method: &'static str },
    /// so far a proper prefix of a request of the grammar
    Incomplete,
    /// can never become a request of the grammar: must not be answered
    Malformed(&'static str),
    /// the statement does not determine the outcome
    DontCare(&'static str),
}

/// Line terminator at `i`: Some(len) for LF (1) or CRLF (2).
fn eol(b: &[u8], i: usize) -> Option<usize> {
    if i < b.len() && b[i] == b'\n' {
        Some(1)
    } else if i + 1 < b.len() && b[i] == b'\r' && b[i + 1] == b'\n' {
        Some(2)
    } else {
        None
    }
}

pub fn classify(b: &[u8]) -> HttpClass {
    // method SP
    let mut method: Option<&'static str> = None;
    let mut could_be_prefix = false;
    for m in METHODS.iter() {
        let ms = m.as_bytes();
        let n = ms.len() + 1;
        let mut lit = ms.to_vec();
        lit.push(b' ');
        if b.len() >= n {
            if b[..n] == lit[..] {
                method = Some(*m);
            }
        } else if lit[..b.len()] == b[..] {
            could_be_prefix = true;
        }
    }
    let method = match method {
        Some(m) => m,
        None => {
            if could_be_prefix {
                return HttpClass::Incomplete;
            }
            // a known method in other case, or followed by something else than SP
            return HttpClass::Malformed("method");
        }
    };
    let mut i = method.len() + 1;
    // request-target: origin-form, up to the next SP
    if i >= b.len() {
        return HttpClass::Incomplete;
    }
    if b[i] != b'/' {
        return HttpClass::DontCare("target-not-origin-form");
    }
    let tstart = i;
    while i < b.len() && b[i] != b' ' {
        if b[i] == b'\r' || b[i] == b'\n' {
            return HttpClass::DontCare("cr-or-lf-in-target");
        }
        i += 1;
    }
    if i >= b.len() {
        return HttpClass::Incomplete;
    }
    let _target = &b[tstart..i];
    i += 1; // SP
    // HTTP/
    let lit = b"HTTP/";
    for k in 0..5 {
        if i >= b.len() {
            return HttpClass::Incomplete;
        }
        if b[i] != lit[k] {
            return HttpClass::Malformed("http-literal");
        }
        i += 1;
    }
    // major "." minor
    let mut digits = 0;
    loop {
        if i >= b.len() {
            return HttpClass::Incomplete;
        }
        if b[i].is_ascii_digit() {
            digits += 1;
            i += 1;
        } else if b[i] == b'.' {
            break;
        } else if b[i] == b'\r' || b[i] == b'\n' {
            return HttpClass::DontCare("version-without-minor");
        } else {
            return HttpClass::Malformed("version");
        }
    }
    if digits == 0 {
        return HttpClass::DontCare("empty-major-version");
    }
    i += 1; // '.'
    digits = 0;
    loop {
        if i >= b.len() {
            return HttpClass::Incomplete;
        }
        if b[i].is_ascii_digit() {
            digits += 1;
            i += 1;
        } else if b[i] == b'\r' || b[i] == b'\n' {
            break;
        } else {
            return HttpClass::Malformed("version");
        }
    }
    if digits == 0 {
        return HttpClass::DontCare("empty-minor-version");
    }
    match eol(b, i) {
        Some(n) => i += n,
        None => {
            if i + 1 >= b.len() {
                return HttpClass::Incomplete; // CR at the very end
            }
            return HttpClass::DontCare("bare-cr");
        }
    }
    // header lines until the empty line
    let mut header_lines = 0usize;
    loop {
        if i >= b.len() {
            return HttpClass::Incomplete;
        }
        if let Some(n) = eol(b, i) {
            return HttpClass::Complete { end: i + n, method };
        }
        if b[i] == b'\r' {
            if i + 1 >= b.len() {
                return HttpClass::Incomplete;
            }
            return HttpClass::DontCare("bare-cr");
        }
        // name ":" value
        if b[i] == b':' {
            return HttpClass::DontCare("empty-header-name");
        }
        if b[i] == b' ' || b[i] == b'\t' {
            // a line that starts with white space: with a colon it is arguably a 'name: value'
            // line with an odd name (don't-care); without one it is no header line under any reading
            // of the statement (which has no continuation lines)
            let mut j = i;
            while j < b.len() && b[j] != b'\r' && b[j] != b'\n' && b[j] != b':' {
                j += 1;
            }
            if j >= b.len() {
                return HttpClass::Incomplete;
            }
            if b[j] == b':' {
                return HttpClass::DontCare("folded-header-line");
            }
            if header_lines > 0 {
                // behind a header line HTTP reads such a line as the continuation of that header's
                // value (a fold): whether the statement's "header line" is the physical or the
                // logical line is open - what is not open is that the answer is the same under
                // every segmentation (C11)
                return HttpClass::DontCare("folded-continuation-line");
            }
            return HttpClass::Malformed("header-without-colon");
        }
        let mut colon = false;
        while i < b.len() {
            if b[i] == b':' {
                colon = true;
                i += 1;
                break;
            }
            if b[i] == b'\r' || b[i] == b'\n' {
                return HttpClass::Malformed("header-without-colon");
            }
            i += 1;
        }
        if !colon {
            return HttpClass::Incomplete;
        }
        // value up to the line end
        loop {
            if i >= b.len() {
                return HttpClass::Incomplete;
            }
            if let Some(n) = eol(b, i) {
                i += n;
                header_lines += 1;
                break;
            }
            if b[i] == b'\r' {
                if i + 1 >= b.len() {
                    return HttpClass::Incomplete;
                }
                return HttpClass::DontCare("bare-cr");
            }
            i += 1;
        }
    }
}

fn token(rng: &mut Rng, min: usize, max: usize) -> Vec<u8> {
    const T: &[u8] = b"abcdefghijklmnopqrstuvwxyzABCDEFGHIJKLMNOPQRSTUVWXYZ0123456789-_";
    let n = rng.range(min as u64, max as u64) as usize;
    (0..n).map(|_| *rng.pick(T)).collect()
}

pub fn gen_target(rng: &mut Rng) -> Vec<u8> {
    let mut t = vec![b'/'];
    let n = match rng.below(13) {
        0 | 1 => 0,
        2 | 3 => 1,
        4 | 5 | 6 | 7 => rng.range(2, 24),
        8 | 9 => rng.range(25, 200),
        10 | 11 => rng.range(200, 900),
        // around the sizes a fixed buffer would have, up to what fits a frame
        _ => *rng.pick(&[255u64, 256, 511, 512, 1023, 1024, 1025, 2047, 2048, 3000]),
    } as usize;
    let style = rng.below(4);
    for _ in 0..n {
        let c = match style {
            0 => *rng.pick(b"abcdefghijklmnopqrstuvwxyz0123456789/._-~%?=&"),
            1 => rng.range(0x21, 0x7e) as u8,
            _ => rng.u8(), // arbitrary bytes incl. non-UTF-8
        };
        if c == b' ' || c == b'\r' || c == b'\n' {
            t.push(b'_');
        } else {
            t.push(c);
        }
    }
    t
}

/// A request of the grammar; returns the bytes.
pub fn gen_valid(rng: &mut Rng) -> Vec<u8> {
    let m = *rng.pick(&METHODS);
    let crlf_mode = rng.below(3); // 0 CRLF, 1 LF, 2 mixed per line
    let mut nl = |rng: &mut Rng, out: &mut Vec<u8>| {
        let crlf = match crlf_mode {
            0 => true,
            1 => false,
            _ => rng.chance(1, 2),
        };
        if crlf {
            out.extend_from_slice(b"\r\n");
        } else {
            out.push(b'\n');
        }
    };
    let mut out = Vec::new();
    out.extend_from_slice(m.as_bytes());
    out.push(b' ');
    out.extend_from_slice(&gen_target(rng));
    out.extend_from_slice(b" HTTP/");
    // any number of digits: what fits a byte, a word, a u32, a u64 - and what does not
    let digits = |rng: &mut Rng| -> String {
        match rng.below(8) {
            0 => *rng.pick(&["255", "256", "65535", "65536", "4294967295", "4294967296", "18446744073709551615", "18446744073709551616"]),
            1 => "00000000001",
            2 => "99999999999999999999999999999999",
            _ => "",
        }
        .to_string()
    };
    let maj = match rng.below(5) {
        0 => "1".to_string(),
        1 => "2".to_string(),
        2 => rng.below(10).to_string(),
        3 => rng.below(100000).to_string(),
        _ => {
            let d = digits(rng);
            if d.is_empty() { "1".to_string() } else { d }
        }
    };
    let min = match rng.below(5) {
        0 => "1".to_string(),
        1 => "0".to_string(),
        2 => rng.below(10).to_string(),
        3 => rng.below(100000).to_string(),
        _ => {
            let d = digits(rng);
            if d.is_empty() { "0".to_string() } else { d }
        }
    };
    out.extend_from_slice(maj.as_bytes());
    out.push(b'.');
    out.extend_from_slice(min.as_bytes());
    nl(rng, &mut out);
    let mut nh = match rng.below(5) {
        0 => 0,
        1 => 1,
        2 | 3 => rng.range(2, 5),
        _ => rng.range(6, 20),
    };
    if out.len() > 1000 {
        // keep the whole request inside one frame of the capture size
        nh = nh.min(2);
    }
    for _ in 0..nh {
        if rng.chance(1, 5) {
            // a header real clients send, in any letter case, with a value of its grammar: numbers
            // of any size (what fits a byte, a word, a u32, a u64 - and what does not), lists, ranges
            let mut name = rng
                .pick(&[
                    "Content-Length", "Content-Length", "Transfer-Encoding", "Connection", "Keep-Alive", "Range", "Max-Forwards", "Expect", "Upgrade", "Host", "Authorization", "Cookie", "Accept-Encoding", "If-Modified-Since", "TE", "Age",
                ])
                .as_bytes()
                .to_vec();
            match rng.below(4) {
                0 => name.make_ascii_lowercase(),
                1 => name.make_ascii_uppercase(),
                _ => {}
            }
            let num = digits(rng);
            let num = if num.is_empty() { rng.below(100_000).to_string() } else { num };
            let lname = name.to_ascii_lowercase();
            let value: String = match &lname[..] {
                b"content-length" | b"max-forwards" | b"age" => match rng.below(8) {
                    0 => format!("-{}", num),
                    1 => format!("+{}", num),
                    2 => format!("{}, {}", num, num),
                    3 => format!("0x{}", num),
                    _ => num,
                },
                b"transfer-encoding" | b"te" => rng.pick(&["chunked", "gzip, chunked", "identity", "chunked;q=1.0", "trailers"]).to_string(),
                b"connection" => rng.pick(&["keep-alive", "close", "Upgrade", "keep-alive, Upgrade", "TE, close"]).to_string(),
                b"keep-alive" => format!("timeout={}, max={}", num, digits(rng)),
                b"range" => match rng.below(4) {
                    0 => format!("bytes={}-", num),
                    1 => format!("bytes=-{}", num),
                    2 => format!("bytes={}-{}", num, digits(rng)),
                    _ => format!("bytes=0-0,{}-{}", num, num),
                },
                b"expect" => "100-continue".to_string(),
                b"upgrade" => rng.pick(&["h2c", "websocket", "TLS/1.0, HTTP/1.1"]).to_string(),
                b"host" => format!("example.test:{}", num),
                b"authorization" => rng.pick(&["Basic YWRtaW46YWRtaW4=", "Basic ", "Basic !!!!", "Digest username=\"a\", nc=99999999999999999999", "Bearer x"]).to_string(),
                b"if-modified-since" => rng.pick(&["Sat, 29 Oct 1994 19:43:31 GMT", "Thu, 01 Jan 1970 00:00:00 GMT", "Fri, 31 Dec 99999 23:59:60 GMT", "0"]).to_string(),
                _ => format!("a={}; b={}", num, num),
            };
            out.extend_from_slice(&name);
            out.push(b':');
            for _ in 0..rng.below(3) {
                out.push(*rng.pick(b" \t"));
            }
            out.extend_from_slice(value.as_bytes());
            for _ in 0..rng.below(2) {
                out.push(b' ');
            }
            nl(rng, &mut out);
            continue;
        }
        let name = match rng.below(6) {
            0 => b"Host".to_vec(),
            1 => b"Content-Length".to_vec(),
            2 => b"Content-Type".to_vec(),
            3 => b"User-Agent".to_vec(),
            _ => token(rng, 1, 20),
        };
        out.extend_from_slice(&name);
        out.push(b':');
        if rng.chance(3, 4) {
            out.push(b' ');
        }
        let vl = rng.range(0, 40) as usize;
        for _ in 0..vl {
            let c = if rng.chance(1, 8) { rng.u8() } else { rng.range(0x20, 0x7e) as u8 };
            out.push(if c == b'\r' || c == b'\n' { b'.' } else { c });
        }
        nl(rng, &mut out);
    }
    nl(rng, &mut out);
    out
}

/// A request of the grammar that does not fit one frame: a very long target, a very long header
/// value, or very many header lines (TCP only - the client cuts it at its segment size).
pub fn gen_jumbo(rng: &mut Rng) -> Vec<u8> {
    let m = *rng.pick(&METHODS);
    let big = *rng.pick(&[4090usize, 5000, 8191, 8192, 8193, 10000, 16384, 20000, 40000, 65536, 70000]);
    let mut out = Vec::new();
    out.extend_from_slice(m.as_bytes());
    out.push(b' ');
    let kind = rng.below(3);
    out.push(b'/');
    if kind == 0 {
        for _ in 0..big {
            out.push(*rng.pick(b"abcdefghijklmnopqrstuvwxyz0123456789/._-~%?=&"));
        }
    } else {
        out.extend_from_slice(b"index.html");
    }
    out.extend_from_slice(b" HTTP/1.1\r\n");
    match kind {
        1 => {
            out.extend_from_slice(b"Cookie: ");
            for _ in 0..big {
                out.push(rng.range(0x20, 0x7e) as u8);
            }
            out.extend_from_slice(b"\r\n");
        }
        2 => {
            let mut k = 0;
            while out.len() < big {
                out.extend_from_slice(format!("X-Header-{}: {}\r\n", k, k * 7).as_bytes());
                k += 1;
            }
        }
        _ => out.extend_from_slice(b"Host: example.org\r\n"),
    }
    out.extend_from_slice(b"\r\n");
    out
}

/// Single-fault corruptions of a valid request that must not be answered, plus truncations.
pub fn gen_fault(rng: &mut Rng) -> Vec<u8> {
    let v = gen_valid(rng);
    let sp1 = v.iter().position(|c| *c == b' ').unwrap();
    match rng.below(10) {
        9 => {
            // a bare CR inside a header name (the line still has its colon)
            let p = find(&v, b" HTTP/").unwrap();
            let e = p + v[p..].iter().position(|c| *c == b'\n').unwrap() + 1;
            let mut o = v[..e].to_vec();
            let name = token(rng, 2, 10);
            let k = rng.range(1, name.len() as u64 - 1) as usize;
            o.extend_from_slice(&name[..k]);
            o.push(b'\r');
            o.extend_from_slice(&name[k..]);
            o.extend_from_slice(b": x");
            o.extend_from_slice(if rng.chance(1, 2) { b"\r\n" } else { b"\n" });
            o.extend_from_slice(&v[e..]);
            o
        }
        0 => {
            // unknown method
            let m = *rng.pick(&["GOT", "FETCH", "PROPFIND", "GETS", "XGET", "HTTP", "PUTT", "DELET"]);
            let mut o = m.as_bytes().to_vec();
            o.extend_from_slice(&v[sp1..]);
            o
        }
        1 => {
            // lower-case / mixed-case method
            let mut o = v.clone();
            let k = rng.usize_below(sp1);
            o[k] = o[k].to_ascii_lowercase();
            if rng.chance(1, 2) {
                for c in o[..sp1].iter_mut() {
                    *c = c.to_ascii_lowercase();
                }
            }
            o
        }
        2 => {
            // missing SP after the method
            let mut o = v[..sp1].to_vec();
            o.extend_from_slice(&v[sp1 + 1..]);
            o
        }
        3 => {
            // garbled HTTP/ literal
            let mut o = v.clone();
            let p = find(&o, b" HTTP/").unwrap() + 1;
            let k = p + rng.usize_below(5);
            o[k] = if rng.chance(1, 2) { o[k].to_ascii_lowercase() } else { b'X' };
            if o[k] == v[k] {
                o[k] = b'#';
            }
            o
        }
        4 => {
            // non-digit in the version
            let mut o = v.clone();
            let p = find(&o, b" HTTP/").unwrap() + 6;
            o[p] = *rng.pick(b"xX-+ ");
            o
        }
        5 => {
            // header line without colon (only meaningful if it ends up before the empty line)
            let p = find(&v, b" HTTP/").unwrap();
            let e = p + v[p..].iter().position(|c| *c == b'\n').unwrap() + 1;
            // ... after the request line or after any later header line
            let e = if rng.chance(1, 2) {
                e
            } else {
                let ends: Vec<usize> = (e..v.len().saturating_sub(1)).filter(|k| v[*k] == b'\n').map(|k| k + 1).collect();
                if !ends.is_empty() {
                    ends[rng.usize_below(ends.len())]
                } else {
                    e
                }
            };
            let mut o = v[..e].to_vec();
            // one time in three the line starts with white space (what a "continuation line" would look like)
            match rng.below(6) {
                0 => o.extend_from_slice(*rng.pick(&[&b" "[..], b"\t", b"  ", b" \t "])),
                1 => {
                    o.push(*rng.pick(b" \t"));
                    o.extend_from_slice(&token(rng, 1, 12));
                }
                _ => o.extend_from_slice(&token(rng, 1, 12)),
            }
            o.extend_from_slice(if rng.chance(1, 2) { b"\r\n" } else { b"\n" });
            o.extend_from_slice(&v[e..]);
            o
        }
        6 => {
            // final empty line missing
            let mut o = v.clone();
            o.pop();
            if o.last() == Some(&b'\r') {
                o.pop();
            }
            o
        }
        7 => {
            // truncated anywhere
            let k = rng.range(1, v.len() as u64 - 1) as usize;
            v[..k].to_vec()
        }
        _ => {
            // missing SP before HTTP/
            let p = find(&v, b" HTTP/").unwrap();
            let mut o = v[..p].to_vec();
            o.extend_from_slice(&v[p + 1..]);
            o
        }
    }
}

pub fn find(h: &[u8], n: &[u8]) -> Option<usize> {
    if n.is_empty() || h.len() < n.len() {
        return None;
    }
    (0..=h.len() - n.len()).find(|i| &h[*i..*i + n.len()] == n)
}

/// Check a response against C13: Ok(()) or the list of defects.
/// Length of the first response of a payload (header block plus the body its Content-Length
/// announces), when more bytes follow it that start another response: a segment that completes
/// several pipelined requests may carry their responses back to back.
pub fn first_response_len(r: &[u8]) -> Option<usize> {
    let mut i = 0;
    let mut body_start = None;
    while i < r.len() {
        if r[i] == b'\n' {
            if i + 1 < r.len() && r[i + 1] == b'\n' {
                body_start = Some(i + 2);
                break;
            }
            if i + 2 < r.len() && r[i + 1] == b'\r' && r[i + 2] == b'\n' {
                body_start = Some(i + 3);
                break;
            }
        }
        i += 1;
    }
    let body_start = body_start?;
    let mut clen: Option<usize> = None;
    for line in r[..body_start].split(|c| *c == b'\n').skip(1) {
        let line = if line.last() == Some(&b'\r') { &line[..line.len() - 1] } else { line };
        if line.len() > 15 && line[..15].eq_ignore_ascii_case(b"content-length:") {
            clen = String::from_utf8_lossy(&line[15..]).trim().parse::<usize>().ok();
        }
    }
    let end = body_start.checked_add(clen?)?;
    if end < r.len() && r[end..].starts_with(b"HTTP/1.") {
        Some(end)
    } else {
        None
    }
}

pub fn check_response(r: &[u8]) -> Vec<(&'static str, String)> {
    // several responses back to back: each one is judged on its own
    if let Some(l) = first_response_len(r) {
        let mut bad = check_response(&r[..l]);
        bad.extend(check_response(&r[l..]));
        return bad;
    }
    let mut bad = Vec::new();
    if !r.starts_with(b"HTTP/1.1 401") {
        bad.push(("status-line", format!("response starts with {:?}", String::from_utf8_lossy(&r[..r.len().min(16)]))));
        return bad;
    }
    // head / body split at the first empty line (LF LF or CRLF CRLF)
    let mut split = None;
    let mut i = 0;
    while i < r.len() {
        if r[i] == b'\n' {
            if i + 1 < r.len() && r[i + 1] == b'\n' {
                split = Some((i + 1, i + 2));
                break;
            }
            if i + 2 < r.len() && r[i + 1] == b'\r' && r[i + 2] == b'\n' {
                split = Some((i + 1, i + 3));
                break;
            }
        }
        i += 1;
    }
    let (head_end, body_start) = match split {
        Some(x) => x,
        None => {
            bad.push(("no-empty-line", "response has no empty line after the header".into()));
            return bad;
        }
    };
    let head = &r[..head_end];
    let body = &r[body_start..];
    let mut has_auth = false;
    let mut clen: Option<usize> = None;
    for line in head.split(|c| *c == b'\n').skip(1) {
        let line = if line.last() == Some(&b'\r') { &line[..line.len() - 1] } else { line };
        if line.is_empty() {
            continue;
        }
        let colon = match line.iter().position(|c| *c == b':') {
            Some(c) => c,
            None => {
                bad.push(("header-line", format!("header line without colon: {:?}", String::from_utf8_lossy(line))));
                continue;
            }
        };
        let name = String::from_utf8_lossy(&line[..colon]).to_ascii_lowercase();
        let value = String::from_utf8_lossy(&line[colon + 1..]).trim().to_string();
        if name == "www-authenticate" && !value.is_empty() {
            has_auth = true;
        }
        if name == "content-length" {
            match value.parse::<usize>() {
                Ok(n) => clen = Some(n),
                Err(_) => bad.push(("content-length", format!("unparsable Content-Length {:?}", value))),
            }
        }
    }
    if !has_auth {
        bad.push(("www-authenticate", "no WWW-Authenticate challenge".into()));
    }
    match clen {
        None => bad.push(("content-length", "no Content-Length header".into())),
        Some(n) if n != body.len() => bad.push((
            "content-length",
            format!("Content-Length {} but {} body bytes were sent", n, body.len()),
        )),
        _ => {}
    }
    bad
}

/// Mask the wall-clock field of a response (the Date header value).
pub fn mask_date(r: &[u8]) -> Vec<u8> {
    let mut out = Vec::with_capacity(r.len());
    let mut i = 0;
    while i < r.len() {
        let line_end = r[i..].iter().position(|c| *c == b'\n').map(|p| i + p + 1).unwrap_or(r.len());
        let line = &r[i..line_end];
        if line.len() >= 5 && line[..5].eq_ignore_ascii_case(b"date:") {
            out.extend_from_slice(b"Date: <masked>\n");
        } else {
            out.extend_from_slice(line);
        }
        i = line_end;
    }
    out
}
