//! STUN (RFC 3489 / RFC 5389): reference decoder and message generator.

use crate::rng::Rng;

pub const MAGIC: [u8; 4] = [0x21, 0x12, 0xa4, 0x42];

#[derive(Clone, Debug)]
pub struct StunMsg {
    pub ty: u16,
    pub class: u8,
    pub method: u16,
    pub len: u16,
    pub id: [u8; 16],
    pub magic: bool,
    /// attributes (type, value) read with 4-byte alignment
    pub attrs: Vec<(u16, Vec<u8>)>,
    /// the attribute TLVs, each value padded to a multiple of 4 bytes, tile the attribute area
    /// exactly (values whose length is no multiple of 4 only with the RFC 5389 magic cookie)
    pub tiles: bool,
    /// message length field equals the number of bytes following the header
    pub len_matches: bool,
    /// the two most significant bits of the type are zero
    pub top_bits_zero: bool,
}

pub fn class_of(ty: u16) -> u8 {
    (((ty & 0x0100) >> 7) | ((ty & 0x0010) >> 4)) as u8
}
pub fn method_of(ty: u16) -> u16 {
    (ty & 0x000f) | ((ty & 0x00e0) >> 1) | ((ty & 0x3e00) >> 2)
}
pub fn type_of(class: u8, method: u16) -> u16 {
    let c = class as u16;
    ((c & 2) << 7) | ((c & 1) << 4) | (method & 0x000f) | ((method & 0x0070) << 1) | ((method & 0x0f80) << 2)
}

pub fn parse(b: &[u8]) -> Option<StunMsg> {
    if b.len() < 20 {
        return None;
    }
    let ty = ((b[0] as u16) << 8) | b[1] as u16;
    let len = ((b[2] as u16) << 8) | b[3] as u16;
    let mut id = [0u8; 16];
    id.copy_from_slice(&b[4..20]);
    let area = &b[20..];
    let len_matches = len as usize == area.len();
    let mut attrs = Vec::new();
    let mut tiles = len_matches;
    let mut odd = false;
    let mut i = 0usize;
    let end = (len as usize).min(area.len());
    while i < end {
        if i + 4 > end {
            tiles = false;
            break;
        }
        let at = ((area[i] as u16) << 8) | area[i + 1] as u16;
        let al = (((area[i + 2] as u16) << 8) | area[i + 3] as u16) as usize;
        // values are padded to a multiple of 4 bytes (RFC 5389 section 15; RFC 3489 values are
        // multiples of 4 anyway); a last value without its padding does not tile
        let padded = (al + 3) & !3;
        if i + 4 + padded > end {
            tiles = false;
            break;
        }
        if al % 4 != 0 {
            odd = true;
        }
        attrs.push((at, area[i + 4..i + 4 + al].to_vec()));
        i += 4 + padded;
    }
    // without the magic cookie there is no padding rule: the two readings disagree
    if odd && b[4..8] != MAGIC {
        tiles = false;
    }
    Some(StunMsg {
        ty,
        class: class_of(ty),
        method: method_of(ty),
        len,
        id,
        magic: b[4..8] == MAGIC,
        attrs,
        tiles,
        len_matches,
        top_bits_zero: ty & 0xc000 == 0,
    })
}

impl StunMsg {
    pub fn is_binding_request(&self) -> bool {
        self.top_bits_zero && self.class == 0 && self.method == 1
    }
    /// number of CHANGE-REQUEST attributes (type 3, 4 bytes) with the change-port flag
    pub fn change_port_count(&self) -> usize {
        self.attrs
            .iter()
            .filter(|(t, v)| *t == 3 && v.len() == 4 && v[3] & 0x02 != 0)
            .count()
    }
    /// CHANGE-REQUEST attributes whose value is not exactly 4 bytes (malformed)
    pub fn odd_change_requests(&self) -> usize {
        self.attrs.iter().filter(|(t, v)| *t == 3 && v.len() != 4).count()
    }
}

pub fn build(ty: u16, id: &[u8; 16], attrs: &[(u16, Vec<u8>)]) -> Vec<u8> {
    let mut body = Vec::new();
    for (t, v) in attrs {
        body.extend_from_slice(&t.to_be_bytes());
        body.extend_from_slice(&(v.len() as u16).to_be_bytes());
        body.extend_from_slice(v);
        while body.len() % 4 != 0 {
            body.push(0);
        }
    }
    let mut m = Vec::with_capacity(20 + body.len());
    m.extend_from_slice(&ty.to_be_bytes());
    m.extend_from_slice(&(body.len() as u16).to_be_bytes());
    m.extend_from_slice(id);
    m.extend_from_slice(&body);
    m
}

/// A transaction id: with the RFC 5389 magic cookie or without (RFC 3489).
pub fn gen_id(rng: &mut Rng, magic: bool) -> [u8; 16] {
    let mut id = [0u8; 16];
    let r = rng.bytes(16);
    id.copy_from_slice(&r);
    if magic {
        id[..4].copy_from_slice(&MAGIC);
    } else if id[..4] == MAGIC {
        id[0] ^= 0x55;
    }
    id
}

/// Well-formed attribute list (all value lengths multiples of 4).
pub fn gen_attrs(rng: &mut Rng, allow_change: bool) -> Vec<(u16, Vec<u8>)> {
    let n = match rng.below(6) {
        0 | 1 => 0,
        2 | 3 => 1,
        4 => 2,
        _ => rng.range(3, 6) as usize,
    };
    let mut v = Vec::new();
    for _ in 0..n {
        let kind = rng.below(8);
        match kind {
            0 if allow_change => {
                // CHANGE-REQUEST with flags
                let fl = *rng.pick(&[0u8, 2, 4, 6]);
                v.push((3u16, vec![0, 0, 0, fl]));
            }
            1 => {
                // a MAPPED-ADDRESS sent by the client (legal TLV, semantically odd)
                if rng.chance(1, 2) {
                    let mut val = vec![0, 1];
                    val.extend_from_slice(&rng.bytes(6));
                    v.push((1u16, val));
                } else {
                    let mut val = vec![0, 2];
                    val.extend_from_slice(&rng.bytes(18));
                    v.push((1u16, val));
                }
            }
            2 => {
                // SOFTWARE / USERNAME style text attribute of any length (padded to 4 on the wire)
                let l = if rng.chance(1, 2) { (rng.below(16) * 4) as usize } else { rng.range(1, 64) as usize };
                v.push((*rng.pick(&[0x8022u16, 0x0006, 0x0014, 0x0015]), rng.bytes(l)));
            }
            3 => v.push((0x8028, rng.bytes(4))), // FINGERPRINT
            4 => v.push((0x0008, rng.bytes(20))), // MESSAGE-INTEGRITY
            5 => v.push((0x0024, rng.bytes(4))), // PRIORITY
            _ => {
                let l = (rng.below(8) * 4) as usize;
                let t = loop {
                    let t = rng.u16();
                    if t != 1 && t != 3 {
                        break t;
                    }
                };
                v.push((t, rng.bytes(l)));
            }
        }
    }
    v
}

/// The two RFC 3489 forms the responder's signatures know, and RFC 5389 requests.
pub fn gen_binding_request(rng: &mut Rng) -> Vec<u8> {
    match rng.below(10) {
        0 | 1 => {
            // RFC 3489, empty
            build(0x0001, &gen_id(rng, false), &[])
        }
        2 | 3 => {
            // RFC 3489, CHANGE-REQUEST only
            let fl = *rng.pick(&[0u8, 2, 4, 6]);
            build(0x0001, &gen_id(rng, false), &[(3, vec![0, 0, 0, fl])])
        }
        4 | 5 => build(0x0001, &gen_id(rng, true), &[]),
        6 => build(0x0001, &gen_id(rng, true), &[(3, vec![0, 0, 0, 2])]),
        7 | 8 => {
            // RFC 5389 request with >= 256 attribute bytes (message length high byte non-zero)
            let mut a = gen_attrs(rng, true);
            let n = (rng.range(64, 120) * 4) as usize;
            a.push((0x8022, rng.bytes(n)));
            build(0x0001, &gen_id(rng, true), &a)
        }
        _ => {
            let a = gen_attrs(rng, true);
            build(0x0001, &gen_id(rng, true), &a)
        }
    }
}

/// Messages of other classes / methods (must not get a STUN response).
pub fn gen_non_request(rng: &mut Rng) -> Vec<u8> {
    let magic = rng.chance(3, 4);
    let id = gen_id(rng, magic);
    let (class, method) = match rng.below(6) {
        0 => (1u8, 1u16), // binding indication
        1 => (2, 1),      // success response
        2 => (3, 1),      // error response
        3 => (0, *rng.pick(&[2u16, 3, 4, 6, 7, 8, 9, 0x80, 0x100, 0x101, 0x181, 0xfff])), // other method, request
        4 => (rng.below(4) as u8, rng.below(0x1000) as u16),
        _ => (2, *rng.pick(&[1u16, 3, 0x101])),
    };
    let mut ty = type_of(class, method);
    if class == 0 && method == 1 {
        ty = 0x0101;
    }
    let attrs = if rng.chance(1, 4) {
        // a CHANGE-REQUEST in a message that is not a binding request
        vec![(3u16, vec![0, 0, 0, *rng.pick(&[2u8, 6])])]
    } else if rng.chance(1, 2) {
        // a plausible response body
        let mut val = vec![0, 1];
        val.extend_from_slice(&rng.bytes(6));
        vec![(1u16, val)]
    } else {
        gen_attrs(rng, true)
    };
    build(ty, &id, &attrs)
}

/// A binding request whose last attribute announces `declared` value bytes but is followed by
/// `present` bytes only (fewer, exactly as many, or more - unpadded and stray bytes included);
/// the message length covers exactly what is there. `lead`: a well-formed attribute in front.
pub fn tlv_case(id: &[u8; 16], ty: u16, declared: u16, present: &[u8], lead: bool) -> Vec<u8> {
    let mut body = Vec::new();
    if lead {
        body.extend_from_slice(&[0x80, 0x22, 0, 4, b'a', b'b', b'c', b'd']);
    }
    body.extend_from_slice(&ty.to_be_bytes());
    body.extend_from_slice(&declared.to_be_bytes());
    body.extend_from_slice(present);
    let mut m = vec![0, 1];
    m.extend_from_slice(&(body.len() as u16).to_be_bytes());
    m.extend_from_slice(id);
    m.extend_from_slice(&body);
    m
}

/// Hostile / malformed STUN-looking datagrams (for C01; every other property treats them as don't-care).
pub fn gen_hostile(rng: &mut Rng) -> Vec<u8> {
    let mut m = gen_binding_request(rng);
    match rng.below(10) {
        8 | 9 => {
            // last attribute of an interpreted or opaque type with every relation between the
            // announced and the present number of value bytes
            let magic = rng.chance(3, 4);
            let id = gen_id(rng, magic);
            let ty = *rng.pick(&[1u16, 1, 3, 3, 0x0020, 0x8022]);
            let declared = match rng.below(4) {
                0 => rng.below(5),
                1 => *rng.pick(&[7u64, 8, 9, 19, 20, 21]),
                2 => rng.below(32),
                _ => rng.below(0x10000),
            } as u16;
            let present = match rng.below(4) {
                0 => declared as usize,
                1 => (declared as usize + 3) & !3,
                2 => rng.below(declared as u64 + 1) as usize,
                _ => declared as usize + rng.range(1, 5) as usize,
            }
            .min(600);
            let mut val = rng.bytes(present);
            if ty == 1 && val.len() >= 2 && rng.chance(1, 2) {
                val[1] = *rng.pick(&[1u8, 2]);
            }
            let lead = rng.chance(1, 3);
            m = tlv_case(&id, ty, declared, &val, lead);
        }
        0 => {
            // attribute length beyond the message
            let id = gen_id(rng, true);
            m = build(0x0001, &id, &[(rng.u16(), rng.bytes(8))]);
            let l = m.len();
            m[l - 10] = 0xff;
            m[l - 9] = 0xf0;
        }
        1 => {
            // short MAPPED-ADDRESS
            let id = gen_id(rng, true);
            m = build(0x0001, &id, &[(1, rng.bytes(4))]);
        }
        2 => {
            // short CHANGE-REQUEST
            let id = gen_id(rng, true);
            let l = rng.below(4) as usize;
            let mut body = vec![0u8, 3, 0, l as u8];
            body.extend_from_slice(&rng.bytes(l));
            m = Vec::new();
            m.extend_from_slice(&[0, 1]);
            m.extend_from_slice(&(body.len() as u16).to_be_bytes());
            m.extend_from_slice(&id);
            m.extend_from_slice(&body);
        }
        3 => {
            // unknown address family in MAPPED-ADDRESS
            let id = gen_id(rng, true);
            let mut val = vec![0, *rng.pick(&[0u8, 3, 0xff])];
            val.extend_from_slice(&rng.bytes(6));
            m = build(0x0001, &id, &[(1, val)]);
        }
        4 => {
            // length field larger than the datagram / large length
            let id = gen_id(rng, true);
            let n = rng.range(256, 600) as usize;
            m = build(0x0001, &id, &[(0x8022, rng.bytes(n & !3))]);
            if rng.chance(1, 2) {
                let cut = rng.range(20, m.len() as u64) as usize;
                m.truncate(cut);
            }
        }
        5 => {
            // trailing partial TLV
            let id = gen_id(rng, true);
            m = build(0x0001, &id, &[]);
            let extra = rng.range(1, 7) as usize;
            m.extend_from_slice(&rng.bytes(extra));
            let l = (m.len() - 20) as u16;
            m[2..4].copy_from_slice(&l.to_be_bytes());
        }
        6 => {
            // IPv6 MAPPED-ADDRESS cut short
            let id = gen_id(rng, true);
            let mut val = vec![0, 2];
            let n6 = rng.range(2, 14) as usize & !1;
            val.extend_from_slice(&rng.bytes(n6));
            while val.len() % 4 != 0 {
                val.push(0);
            }
            m = build(0x0001, &id, &[(1, val)]);
        }
        _ => {
            let n = rng.range(1, 3);
            for _ in 0..n {
                let i = rng.usize_below(m.len());
                m[i] ^= 1 << rng.below(8);
            }
        }
    }
    m
}

/// Decoded MAPPED-ADDRESS: (family, port, address bytes)
pub fn mapped_address(v: &[u8]) -> Option<(u8, u16, Vec<u8>)> {
    if v.len() < 4 {
        return None;
    }
    let fam = v[1];
    let port = ((v[2] as u16) << 8) | v[3] as u16;
    Some((fam, port, v[4..].to_vec()))
}
