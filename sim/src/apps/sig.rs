//! Reference signature matcher for C10: the published signature set with true
//! wildcard semantics ("*" stands for any byte), "first signature completed".

use crate::apps::App;

#[derive(Clone, Debug)]
pub struct Sig {
    pub name: &'static str,
    pub app: App,
    /// RPC has two responders (record-marked / datagram form)
    pub rpc_tcp_form: bool,
    pub pat: Vec<Option<u8>>,
    pub end_anchored: bool,
}

fn lit(name: &'static str, app: App, s: &[u8]) -> Sig {
    Sig {
        name,
        app,
        rpc_tcp_form: false,
        pat: s.iter().map(|b| Some(*b)).collect(),
        end_anchored: false,
    }
}

/// pattern with '*' as wildcard
fn wild(name: &'static str, app: App, s: &[u8], end: bool) -> Sig {
    Sig {
        name,
        app,
        rpc_tcp_form: false,
        pat: s.iter().map(|b| if *b == b'*' { None } else { Some(*b) }).collect(),
        end_anchored: end,
    }
}

pub fn signatures() -> Vec<Sig> {
    let mut v = Vec::new();
    const VERBS: [(&str, &[u8]); 9] = [
        ("HTTP:GET", b"GET /"),
        ("HTTP:PUT", b"PUT /"),
        ("HTTP:POST", b"POST /"),
        ("HTTP:HEAD", b"HEAD /"),
        ("HTTP:DELETE", b"DELETE /"),
        ("HTTP:CONNECT", b"CONNECT /"),
        ("HTTP:OPTIONS", b"OPTIONS /"),
        ("HTTP:TRACE", b"TRACE /"),
        ("HTTP:PATCH", b"PATCH /"),
    ];
    for (n, p) in VERBS.iter() {
        v.push(lit(n, App::Http, p));
    }
    v.push(wild("STUN:MAGIC", App::Stun, b"\x00\x01**\x21\x12\xa4\x42", false));
    v.push(wild("STUN:EMPTY", App::Stun, b"\x00\x01\x00\x00****************", true));
    v.push(wild(
        "STUN:CHANGE-REQUEST",
        App::Stun,
        b"\x00\x01\x00\x08****************\x00\x03\x00\x04\x00\x00\x00*",
        true,
    ));
    v.push(lit("SSH:2.0", App::Ssh, b"SSH-2.0"));
    v.push(lit("SSH:1.99", App::Ssh, b"SSH-1.99"));
    v.push(lit("GHOST", App::Ghost, b"Gh0st"));
    let mut t = wild(
        "RPC:TCP",
        App::Rpc,
        b"********\x00\x00\x00\x00\x00\x00\x00*\x00\x01\x86*****\x00\x00\x00*",
        false,
    );
    t.rpc_tcp_form = true;
    v.push(t);
    v.push(wild(
        "RPC:UDP",
        App::Rpc,
        b"****\x00\x00\x00\x00\x00\x00\x00*\x00\x01\x86*****\x00\x00\x00*",
        false,
    ));
    v.push(wild("SMB1", App::Smb1, b"\x00\x00**\xffSMB", false));
    v.push(wild("SMB2", App::Smb2, b"\x00\x00**\xfeSMB", false));
    v
}

fn matches(sig: &Sig, b: &[u8]) -> bool {
    b.len() >= sig.pat.len() && sig.pat.iter().zip(b.iter()).all(|(p, c)| p.map(|x| x == *c).unwrap_or(true))
}

/// prefix of the signature compatible with all of `b` (b shorter than the signature)
fn compatible(sig: &Sig, b: &[u8]) -> bool {
    b.len() < sig.pat.len() && sig.pat.iter().zip(b.iter()).all(|(p, c)| p.map(|x| x == *c).unwrap_or(true))
}

#[derive(Clone, Debug, PartialEq, Eq)]
pub enum Decision {
    /// no signature is or can be completed
    NoMatch,
    /// (signature index, length at which it completed)
    Match { sig: usize, at: usize },
    /// two signatures of different responders complete at the same point
    Ambiguous,
    /// stream only: nothing completed yet, but some signature still can
    Pending,
}

/// Decide on `b`. `datagram`: `b` is a complete datagram (end anchors apply, and
/// nothing can follow); otherwise `b` is the stream so far.
pub fn decide(sigs: &[Sig], b: &[u8], datagram: bool) -> Decision {
    let mut best: Option<(usize, usize)> = None;
    let mut ambiguous = false;
    for (k, s) in sigs.iter().enumerate() {
        let l = s.pat.len();
        let ok = if s.end_anchored {
            datagram && b.len() == l && matches(s, b)
        } else {
            matches(s, b)
        };
        if !ok {
            continue;
        }
        match best {
            None => best = Some((k, l)),
            Some((bk, bl)) => {
                // a signature without end anchor is completed by its last byte; an end-anchored one
                // of the same length only by the end of the datagram, i.e. strictly later
                let key = (l, s.end_anchored);
                let bkey = (bl, sigs[bk].end_anchored);
                if key < bkey {
                    best = Some((k, l));
                    ambiguous = false;
                } else if key == bkey {
                    let a = &sigs[bk];
                    if a.app != s.app || a.rpc_tcp_form != s.rpc_tcp_form {
                        ambiguous = true;
                    }
                }
            }
        }
    }
    // an end-anchored match competes at its own length like any other
    match best {
        Some((k, l)) => {
            // a shorter completion by another responder wins; equal length with another responder is ambiguous
            if ambiguous {
                Decision::Ambiguous
            } else {
                Decision::Match { sig: k, at: l }
            }
        }
        None => {
            if !datagram && sigs.iter().any(|s| !s.end_anchored && compatible(s, b)) {
                Decision::Pending
            } else {
                Decision::NoMatch
            }
        }
    }
}

/// Numeric protocol ids of the responder (src/proto/mod.rs), for the guarded table probe.
pub fn proto_id(sig: &Sig) -> u64 {
    match (sig.app, sig.rpc_tcp_form) {
        (App::Http, _) => 1,
        (App::Stun, _) => 2,
        (App::Ssh, _) => 3,
        (App::Ghost, _) => 4,
        (App::Rpc, true) => 5,
        (App::Rpc, false) => 6,
        (App::Smb1, _) => 7,
        (App::Smb2, _) => 8,
        _ => 0,
    }
}

/// Explain a missed signature by wildcard shadowing: the first wildcard position of `e`
/// at which the payload byte equals another signature's literal whose own prefix matches
/// the payload. Returns (position, byte, other signature name).
pub fn shadow_explanation(sigs: &[Sig], e: usize, b: &[u8]) -> Option<(usize, u8, &'static str)> {
    let es = &sigs[e];
    for (j, p) in es.pat.iter().enumerate() {
        if p.is_some() || j >= b.len() {
            continue;
        }
        for (k, o) in sigs.iter().enumerate() {
            if k == e || j >= o.pat.len() {
                continue;
            }
            if let Some(l) = o.pat[j] {
                // a literal sibling only exists in the compiled trie if the two patterns share the
                // path up to j symbol by symbol (wildcard = the '*' symbol, not "any byte")
                let same_path = (0..j).all(|i| o.pat[i] == es.pat[i]);
                if l == b[j] && same_path {
                    return Some((j, b[j], o.name));
                }
            }
        }
    }
    None
}

/// Which responder produced this application reply, judged by its shape.
pub fn identify_reply(r: &[u8]) -> Option<App> {
    if r.starts_with(b"HTTP/1.") {
        return Some(App::Http);
    }
    if r.starts_with(b"SSH-") {
        return Some(App::Ssh);
    }
    if r.starts_with(b"Gh0st") {
        return Some(App::Ghost);
    }
    if r.len() >= 8 && r[0] == 0 && &r[4..8] == b"\xffSMB" {
        return Some(App::Smb1);
    }
    if r.len() >= 8 && r[0] == 0 && &r[4..8] == b"\xfeSMB" {
        return Some(App::Smb2);
    }
    if r.len() >= 20 && r[0] == 0x01 && r[1] == 0x01 && (((r[2] as usize) << 8) | r[3] as usize) == r.len() - 20 {
        return Some(App::Stun);
    }
    // ONC-RPC reply: msg_type 1 after the xid (datagram form) or after record mark + xid
    if r.len() >= 24 && r[4..8] == [0, 0, 0, 1] && r[8..12] == [0, 0, 0, 0] {
        return Some(App::Rpc);
    }
    if r.len() >= 28 && r[0] & 0x80 != 0 && r[8..12] == [0, 0, 0, 1] && r[12..16] == [0, 0, 0, 0] {
        return Some(App::Rpc);
    }
    if r.len() >= 12 && r[2] & 0x80 != 0 {
        return Some(App::Dns);
    }
    None
}

/// A payload that runs along two signatures at once: it completes `target` (exactly, so that an
/// end-anchored target ends with the datagram) and carries, at the target's wildcard positions,
/// the literals of a companion signature. Used for real datagrams and first segments (the
/// matcher walks of C10 do the same against the compiled matcher alone).
pub fn companion_payload(rng: &mut crate::rng::Rng) -> Vec<u8> {
    let sigs = signatures();
    let t = &sigs[rng.usize_below(sigs.len())];
    let c = &sigs[rng.usize_below(sigs.len())];
    let mut v = Vec::with_capacity(t.pat.len() + 8);
    for (j, p) in t.pat.iter().enumerate() {
        match p {
            Some(b) => v.push(*b),
            None => match c.pat.get(j) {
                Some(Some(b)) if !rng.chance(1, 16) => v.push(*b),
                _ => v.push(rng.u8()),
            },
        }
    }
    if !rng.chance(2, 3) {
        let extra = rng.range(1, 12) as usize;
        v.extend_from_slice(&rng.bytes(extra));
    }
    v
}

/// The exact companion payload of an ordered pair of signatures: `target` completed, `comp`'s
/// literals at every wildcard position of the target where it has one (0x2a elsewhere).
pub fn companion_exact(target: &Sig, comp: &Sig) -> Vec<u8> {
    target
        .pat
        .iter()
        .enumerate()
        .map(|(j, p)| match p {
            Some(b) => *b,
            None => match comp.pat.get(j) {
                Some(Some(b)) => *b,
                _ => 0x2a,
            },
        })
        .collect()
}
