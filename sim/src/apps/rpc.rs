//! ONC-RPC (RFC 5531) and the portmapper / rpcbind programs (RFC 1833):
//! call generator, independent XDR reader and the expected-reply builder of C16.

use std::net::IpAddr;

use crate::rng::Rng;

#[derive(Clone, Debug)]
pub struct Call {
    pub xid: u32,
    pub msg_type: u32,
    pub rpcvers: u32,
    pub prog: u32,
    pub vers: u32,
    pub proc_: u32,
    pub cred_flavor: u32,
    pub cred: Vec<u8>,
    pub verf_flavor: u32,
    pub verf: Vec<u8>,
    pub args: Vec<u8>,
}

pub fn pad4(n: usize) -> usize {
    (4 - n % 4) % 4
}

impl Call {
    pub fn encode(&self) -> Vec<u8> {
        let mut v = Vec::new();
        for x in [self.xid, self.msg_type, self.rpcvers, self.prog, self.vers, self.proc_, self.cred_flavor] {
            v.extend_from_slice(&x.to_be_bytes());
        }
        v.extend_from_slice(&(self.cred.len() as u32).to_be_bytes());
        v.extend_from_slice(&self.cred);
        v.extend(std::iter::repeat(0).take(pad4(self.cred.len())));
        v.extend_from_slice(&self.verf_flavor.to_be_bytes());
        v.extend_from_slice(&(self.verf.len() as u32).to_be_bytes());
        v.extend_from_slice(&self.verf);
        v.extend(std::iter::repeat(0).take(pad4(self.verf.len())));
        v.extend_from_slice(&self.args);
        v
    }
    /// with a record mark (single, last fragment)
    pub fn encode_tcp(&self) -> Vec<u8> {
        let body = self.encode();
        let mut v = Vec::with_capacity(4 + body.len());
        v.extend_from_slice(&(0x8000_0000u32 | body.len() as u32).to_be_bytes());
        v.extend_from_slice(&body);
        v
    }
    /// as a record of several fragments (RFC 5531 section 11): the first fragment holds at
    /// least the 24 bytes the signature looks at; empty fragments may sit anywhere behind it
    pub fn encode_tcp_fragments(&self, rng: &mut crate::rng::Rng) -> Vec<u8> {
        let body = self.encode();
        let n = rng.range(2, 4) as usize;
        let mut cuts: Vec<usize> = vec![rng.range(24, body.len() as u64) as usize];
        for _ in 2..n {
            cuts.push(rng.range(24, body.len() as u64) as usize);
        }
        cuts.sort();
        let mut parts: Vec<&[u8]> = Vec::new();
        let mut prev = 0;
        for c in cuts.iter().chain(std::iter::once(&body.len())) {
            parts.push(&body[prev..*c]);
            prev = *c;
        }
        let mut v = Vec::new();
        for (i, part) in parts.iter().enumerate() {
            let last = i + 1 == parts.len();
            v.extend_from_slice(&((if last { 0x8000_0000u32 } else { 0 }) | part.len() as u32).to_be_bytes());
            v.extend_from_slice(part);
            if !last && rng.chance(1, 3) {
                // an empty fragment in the middle of the record
                v.extend_from_slice(&[0, 0, 0, 0]);
            }
        }
        v
    }
}

/// Split a TCP payload that consists of exactly one record (one or more fragments, the last one
/// - and only the last one - with the last-fragment bit) into the record's body.
pub fn defragment(p: &[u8]) -> Option<(Vec<u8>, usize)> {
    let mut body = Vec::new();
    let mut i = 0usize;
    let mut n = 0usize;
    loop {
        if i + 4 > p.len() {
            return None;
        }
        let m = u32::from_be_bytes([p[i], p[i + 1], p[i + 2], p[i + 3]]);
        let l = (m & 0x7fff_ffff) as usize;
        i += 4;
        if i + l > p.len() {
            return None;
        }
        body.extend_from_slice(&p[i..i + l]);
        i += l;
        n += 1;
        if m & 0x8000_0000 != 0 {
            break;
        }
        if n > 64 {
            return None;
        }
    }
    if i != p.len() {
        return None;
    }
    Some((body, n))
}

/// Strict XDR reader for a call message (no record mark).
#[derive(Clone, Debug, PartialEq, Eq)]
pub enum CallClass {
    /// complete, XDR-well-formed call; `head_end` = offset after the verifier
    Ok,
    Truncated,
    DontCare(&'static str),
}

pub fn parse_call(b: &[u8]) -> (CallClass, Option<Call>) {
    let w = |i: usize| -> Option<u32> {
        if i + 4 <= b.len() {
            Some(u32::from_be_bytes([b[i], b[i + 1], b[i + 2], b[i + 3]]))
        } else {
            None
        }
    };
    let mut f = [0u32; 8];
    for (k, slot) in f.iter_mut().enumerate() {
        match w(k * 4) {
            Some(x) => *slot = x,
            None => return (CallClass::Truncated, None),
        }
    }
    let cred_len = f[7] as usize;
    if cred_len > 400 {
        // RFC 5531: opaque_auth body is at most 400 bytes
        return (CallClass::DontCare("credential-longer-than-400"), None);
    }
    let mut i = 32;
    if i + cred_len + pad4(cred_len) > b.len() {
        return (CallClass::Truncated, None);
    }
    let cred = b[i..i + cred_len].to_vec();
    i += cred_len + pad4(cred_len);
    let (vf, vl) = match (w(i), w(i + 4)) {
        (Some(a), Some(l)) => (a, l as usize),
        _ => return (CallClass::Truncated, None),
    };
    i += 8;
    if vl > 400 {
        return (CallClass::DontCare("verifier-longer-than-400"), None);
    }
    if i + vl + pad4(vl) > b.len() {
        return (CallClass::Truncated, None);
    }
    let verf = b[i..i + vl].to_vec();
    i += vl + pad4(vl);
    let c = Call {
        xid: f[0],
        msg_type: f[1],
        rpcvers: f[2],
        prog: f[3],
        vers: f[4],
        proc_: f[5],
        cred_flavor: f[6],
        cred,
        verf_flavor: vf,
        verf,
        args: b[i..].to_vec(),
    };
    (CallClass::Ok, Some(c))
}

/// Is the program number in the range the responder's signature covers (0x000186xx)?
pub fn in_portmap_range(prog: u32) -> bool {
    prog & 0xffff_ff00 == 0x0001_8600
}

pub fn push_str(v: &mut Vec<u8>, s: &str) {
    v.extend_from_slice(&(s.len() as u32).to_be_bytes());
    v.extend_from_slice(s.as_bytes());
    v.extend(std::iter::repeat(0).take(pad4(s.len())));
}

pub fn uaddr(ip: &IpAddr, port: u16) -> String {
    format!("{}.{}.{}", ip, port >> 8, port & 0xff)
}

#[derive(Clone, Debug, PartialEq, Eq)]
pub enum Expected {
    /// exact reply body (without record mark)
    Exact(Vec<u8>),
    /// the statement leaves details open; only the common header is checked
    HeaderOnly(&'static str),
}

/// accept_stat values (RFC 5531)
pub const SUCCESS: u32 = 0;
pub const PROG_UNAVAIL: u32 = 1;
pub const PROG_MISMATCH: u32 = 2;
pub const PROC_UNAVAIL: u32 = 3;

/// Does the universal address `text` ("<address>.<hi>.<lo>") designate (ip, port)? The address
/// part may be written in any textual form of the same address (compressed or full IPv6 ...).
pub fn uaddr_designates(text: &str, ip: &IpAddr, port: u16) -> bool {
    let mut parts: Vec<&str> = text.rsplitn(3, '.').collect(); // lo, hi, address
    if parts.len() != 3 {
        return false;
    }
    parts.reverse();
    let (addr, hi, lo) = (parts[0], parts[1], parts[2]);
    let plain = |x: &str| !x.is_empty() && x.len() <= 3 && x.bytes().all(|c| c.is_ascii_digit());
    if !plain(hi) || !plain(lo) {
        return false;
    }
    let (hi, lo) = match (hi.parse::<u32>(), lo.parse::<u32>()) {
        (Ok(h), Ok(l)) if h <= 255 && l <= 255 => (h, l),
        _ => return false,
    };
    match addr.parse::<IpAddr>() {
        Ok(a) => a == *ip && hi * 256 + lo == port as u32,
        Err(_) => false,
    }
}

/// The reply C16 demands for a call contacted at (dst ip, dst port).
pub fn expected_reply(c: &Call, dst: &IpAddr, dport: u16) -> Expected {
    let mut v = Vec::new();
    v.extend_from_slice(&c.xid.to_be_bytes());
    v.extend_from_slice(&1u32.to_be_bytes()); // REPLY
    v.extend_from_slice(&0u32.to_be_bytes()); // MSG_ACCEPTED
    v.extend_from_slice(&0u32.to_be_bytes()); // verifier AUTH_NONE
    v.extend_from_slice(&0u32.to_be_bytes()); // verifier length 0
    if c.vers < 2 || c.vers > 4 {
        v.extend_from_slice(&PROG_MISMATCH.to_be_bytes());
        v.extend_from_slice(&2u32.to_be_bytes());
        v.extend_from_slice(&4u32.to_be_bytes());
        return Expected::Exact(v);
    }
    if c.proc_ == 0 {
        v.extend_from_slice(&SUCCESS.to_be_bytes());
        return Expected::Exact(v);
    }
    if c.prog != 100000 {
        v.extend_from_slice(&PROG_UNAVAIL.to_be_bytes());
        return Expected::Exact(v);
    }
    let v6 = matches!(dst, IpAddr::V6(_));
    match c.proc_ {
        3 => {
            v.extend_from_slice(&SUCCESS.to_be_bytes());
            if c.vers == 2 {
                v.extend_from_slice(&(dport as u32).to_be_bytes());
                Expected::Exact(v)
            } else {
                // the universal address is a text: any spelling of the contacted address is right
                Expected::HeaderOnly("getaddr")
            }
        }
        4 => {
            // DUMP: the statement fixes what is advertised (address, port, netid by IP
            // version), not the exact list of registered programs -> checked structurally
            let _ = v6;
            Expected::HeaderOnly("dump")
        }
        _ => {
            v.extend_from_slice(&PROC_UNAVAIL.to_be_bytes());
            Expected::Exact(v)
        }
    }
}

/// Structural check of a DUMP reply body (after accept_stat): a well-formed XDR list whose
/// entries advertise the contacted endpoint.
/// GETADDR (rpcbind v3/v4) result: one XDR string holding a universal address of the contacted
/// endpoint, padded to 4 bytes, and nothing else.
pub fn check_getaddr(body: &[u8], dst: &IpAddr, dport: u16) -> Result<(), String> {
    if body.len() < 4 {
        return Err("result shorter than a string length".into());
    }
    let l = u32::from_be_bytes([body[0], body[1], body[2], body[3]]) as usize;
    let padded = (l + 3) & !3;
    if 4 + padded != body.len() {
        return Err(format!("string of {} bytes (padded {}) in a result of {} bytes", l, padded, body.len() - 4));
    }
    let text = String::from_utf8_lossy(&body[4..4 + l]).to_string();
    if body[4 + l..].iter().any(|b| *b != 0) {
        return Err("non-zero XDR padding".into());
    }
    if !uaddr_designates(&text, dst, dport) {
        return Err(format!("universal address {:?} but the client contacted {}", text, uaddr(dst, dport)));
    }
    Ok(())
}

pub fn check_dump(body: &[u8], vers: u32, dst: &IpAddr, dport: u16) -> Result<usize, String> {
    let mut i = 0;
    let w = |i: usize| -> Result<u32, String> {
        if i + 4 <= body.len() {
            Ok(u32::from_be_bytes([body[i], body[i + 1], body[i + 2], body[i + 3]]))
        } else {
            Err(format!("XDR word at {} runs past the reply", i))
        }
    };
    let rd_str = |i: &mut usize| -> Result<String, String> {
        let l = w(*i)? as usize;
        *i += 4;
        if *i + l + pad4(l) > body.len() {
            return Err(format!("XDR string of {} bytes at {} runs past the reply", l, *i));
        }
        let s = String::from_utf8_lossy(&body[*i..*i + l]).into_owned();
        if body[*i + l..*i + l + pad4(l)].iter().any(|b| *b != 0) {
            return Err("non-zero XDR padding".into());
        }
        *i += l + pad4(l);
        Ok(s)
    };
    let v6 = matches!(dst, IpAddr::V6(_));
    let mut n = 0;
    loop {
        let more = w(i)?;
        i += 4;
        if more == 0 {
            break;
        }
        if more != 1 {
            return Err(format!("list discriminant {}", more));
        }
        let _prog = w(i)?;
        let _vers = w(i + 4)?;
        i += 8;
        if vers == 2 {
            let prot = w(i)?;
            let port = w(i + 4)?;
            i += 8;
            if prot != 6 && prot != 17 {
                return Err(format!("mapping protocol {}", prot));
            }
            if port != dport as u32 {
                return Err(format!("mapping advertises port {} but the client contacted port {}", port, dport));
            }
        } else {
            let netid = rd_str(&mut i)?;
            let addr = rd_str(&mut i)?;
            let _owner = rd_str(&mut i)?;
            let want_netids: [&str; 2] = if v6 { ["tcp6", "udp6"] } else { ["tcp", "udp"] };
            if !want_netids.contains(&netid.as_str()) {
                return Err(format!("netid {:?} does not match the IP version", netid));
            }
            if !uaddr_designates(&addr, dst, dport) {
                return Err(format!("universal address {:?} but the client contacted {}", addr, uaddr(dst, dport)));
            }
        }
        n += 1;
        if n > 64 {
            return Err("unreasonably long list".into());
        }
    }
    if i != body.len() {
        return Err(format!("{} trailing bytes after the list", body.len() - i));
    }
    Ok(n)
}

// ---------------------------------------------------------------- generator

pub fn gen_call(rng: &mut Rng) -> Call {
    let prog = match rng.below(5) {
        0 | 1 | 2 => 100000,
        3 => 0x0001_8600 + rng.below(256) as u32,
        _ => *rng.pick(&[100003u32, 100005, 100021, 100024, 99840, 100095]),
    };
    let vers = match rng.below(8) {
        0 => 2,
        1 => 3,
        2 => 4,
        3 => rng.below(6) as u32,
        4 => *rng.pick(&[0u32, 1, 5, 104316, 0xffff_ffff]),
        5 => rng.u32(),
        _ => rng.range(2, 4) as u32,
    };
    let proc_ = match rng.below(6) {
        0 => 0,
        1 => 3,
        2 => 4,
        _ => rng.below(256) as u32,
    };
    let (cred_flavor, cred) = match rng.below(5) {
        0 | 1 => (0u32, Vec::new()),
        2 if rng.chance(1, 2) => {
            // AUTH_SYS body as RFC 5531 lays it out: stamp, machine name, uid, gid, gids - with a
            // name length that is right, or an edge value the responder must not trust
            let name: Vec<u8> = (0..rng.range(0, 16)).map(|_| rng.range(0x61, 0x7a) as u8).collect();
            let mut b = rng.u32().to_be_bytes().to_vec();
            let announced: u32 = match rng.below(6) {
                0 => *rng.pick(&[0xffff_ffffu32, 0xffff_fffe, 0xffff_fffd, 0xffff_fffc, 0x8000_0000, 0x7fff_ffff, 255, 256]),
                _ => name.len() as u32,
            };
            b.extend_from_slice(&announced.to_be_bytes());
            b.extend_from_slice(&name);
            while b.len() % 4 != 0 {
                b.push(0);
            }
            b.extend_from_slice(&rng.u32().to_be_bytes());
            b.extend_from_slice(&rng.u32().to_be_bytes());
            let ng = rng.below(4) as u32;
            b.extend_from_slice(&ng.to_be_bytes());
            for _ in 0..ng {
                b.extend_from_slice(&rng.u32().to_be_bytes());
            }
            (1, b)
        }
        2 => {
            // AUTH_SYS-like body
            let n = (rng.range(5, 20) * 4) as usize;
            (1, rng.bytes(n))
        }
        3 => {
            let n = rng.range(1, 40) as usize; // not necessarily a multiple of 4
            (rng.below(4) as u32, rng.bytes(n))
        }
        _ => (rng.u32(), rng.bytes_mul(8, 4)),
    };
    let (verf_flavor, verf) = match rng.below(6) {
        0 => (rng.below(4) as u32, rng.bytes_range(1, 24)),
        _ => (0u32, Vec::new()),
    };
    let args = match proc_ {
        3 if rng.chance(2, 3) => {
            // GETPORT mapping / GETADDR rpcb: content is irrelevant to the responder
            rng.bytes(16)
        }
        _ => rng.bytes_mul(4, 4),
    };
    Call {
        xid: match rng.below(6) {
            0 => rng.u32() & 0x00ff_ffff,                          // first byte 0
            1 => (*rng.pick(b"GPHDCOTS") as u32) << 24 | (rng.u32() & 0x00ff_ffff), // starts like another signature
            _ => rng.u32(),
        },
        msg_type: 0,
        rpcvers: 2,
        prog,
        vers,
        proc_,
        cred_flavor,
        cred,
        verf_flavor,
        verf,
        args,
    }
}

/// A reply-typed RPC message (msg_type 1), as a server would send.
pub fn gen_reply_msg(rng: &mut Rng) -> Vec<u8> {
    let mut v = Vec::new();
    v.extend_from_slice(&rng.u32().to_be_bytes());
    v.extend_from_slice(&1u32.to_be_bytes());
    v.extend_from_slice(&0u32.to_be_bytes());
    v.extend_from_slice(&[0; 8]);
    v.extend_from_slice(&rng.below(6).to_be_bytes()[4..]);
    match rng.below(4) {
        0 | 1 => v.extend_from_slice(&rng.bytes_mul(8, 4)),
        2 => {
            // results that are themselves an RPC call, bare or framed by a record mark (what a
            // relay's CALLIT result can look like): still the body of a reply, never to be answered
            let c = gen_call(rng);
            if rng.chance(1, 2) {
                v.extend_from_slice(&c.encode_tcp());
            } else {
                v.extend_from_slice(&c.encode());
            }
        }
        _ => {}
    }
    v
}

#[derive(Clone, Debug)]
pub struct Reply {
    pub xid: u32,
    pub msg_type: u32,
    pub reply_stat: u32,
    pub verf_flavor: u32,
    pub verf_len: u32,
    pub accept_stat: u32,
    pub body_off: usize,
}

pub fn parse_reply(b: &[u8]) -> Option<Reply> {
    if b.len() < 24 {
        return None;
    }
    let w = |i: usize| u32::from_be_bytes([b[i], b[i + 1], b[i + 2], b[i + 3]]);
    Some(Reply {
        xid: w(0),
        msg_type: w(4),
        reply_stat: w(8),
        verf_flavor: w(12),
        verf_len: w(16),
        accept_stat: w(20),
        body_off: 24,
    })
}
