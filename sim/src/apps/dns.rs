//! DNS (RFC 1035): query generator, independent message decoder (with name
//! compression) and the classification of queries used by C14.

use crate::rng::Rng;

#[derive(Clone, Debug, PartialEq, Eq)]
pub struct Question {
    /// wire form of the name inside the question as sent (labels + root)
    pub name_wire: Vec<u8>,
    pub qtype: u16,
    pub qclass: u16,
    /// wire bytes of the whole question entry
    pub raw: Vec<u8>,
}

#[derive(Clone, Debug)]
pub struct Header {
    pub id: u16,
    pub flags: u16,
    pub qd: u16,
    pub an: u16,
    pub ns: u16,
    pub ar: u16,
}

impl Header {
    pub fn qr(&self) -> bool {
        self.flags & 0x8000 != 0
    }
    pub fn opcode(&self) -> u8 {
        ((self.flags >> 11) & 0xf) as u8
    }
    pub fn rd(&self) -> bool {
        self.flags & 0x0100 != 0
    }
}

pub fn header(b: &[u8]) -> Option<Header> {
    if b.len() < 12 {
        return None;
    }
    let w = |i: usize| ((b[i] as u16) << 8) | b[i + 1] as u16;
    Some(Header {
        id: w(0),
        flags: w(2),
        qd: w(4),
        an: w(6),
        ns: w(8),
        ar: w(10),
    })
}

#[derive(Clone, Debug, PartialEq, Eq)]
pub enum QueryClass {
    /// QR=0, only IN/A questions, nothing else in the message
    InA(Vec<Question>),
    /// a complete message with at least one question that is not IN/A
    NotInA,
    /// shorter than what the header and labels announce
    Truncated,
    /// QR=1
    Response,
    DontCare(&'static str),
}

/// Parse an uncompressed name (as a query carries it) at `i`: returns the index after it.
fn plain_name(b: &[u8], mut i: usize) -> Result<usize, &'static str> {
    let start = i;
    loop {
        if i >= b.len() {
            return Err("truncated");
        }
        let l = b[i] as usize;
        if l == 0 {
            i += 1;
            break;
        }
        if l & 0xc0 != 0 {
            return Err("compression-or-extended-label-in-query");
        }
        if i + 1 + l > b.len() {
            // a label running past the end: a genuine truncation only if what is there
            // could be label data (the responder's scope excludes NUL octets in labels)
            if b[i + 1..].contains(&0) {
                return Err("nul-inside-label");
            }
            return Err("truncated");
        }
        if b[i + 1..i + 1 + l].contains(&0) {
            return Err("nul-inside-label");
        }
        i += 1 + l;
        if i - start > 255 {
            return Err("name-longer-than-255");
        }
    }
    if i - start > 255 {
        return Err("name-longer-than-255");
    }
    Ok(i)
}

pub fn classify_query(b: &[u8]) -> QueryClass {
    let h = match header(b) {
        Some(h) => h,
        None => return QueryClass::Truncated,
    };
    if h.qr() {
        return QueryClass::Response;
    }
    if h.an != 0 || h.ns != 0 || h.ar != 0 {
        return QueryClass::DontCare("query-with-other-sections");
    }
    let mut i = 12;
    let mut qs = Vec::new();
    let mut all_in_a = true;
    for _ in 0..h.qd {
        let s = i;
        match plain_name(b, i) {
            Ok(n) => i = n,
            Err("truncated") => return QueryClass::Truncated,
            Err(e) => return QueryClass::DontCare(e),
        }
        if i + 4 > b.len() {
            return QueryClass::Truncated;
        }
        let qtype = ((b[i] as u16) << 8) | b[i + 1] as u16;
        let qclass = ((b[i + 2] as u16) << 8) | b[i + 3] as u16;
        i += 4;
        if qtype != 1 || qclass != 1 {
            all_in_a = false;
        }
        qs.push(Question {
            name_wire: b[s..i - 4].to_vec(),
            qtype,
            qclass,
            raw: b[s..i].to_vec(),
        });
    }
    if i != b.len() {
        return QueryClass::DontCare("trailing-bytes");
    }
    if all_in_a {
        QueryClass::InA(qs)
    } else {
        QueryClass::NotInA
    }
}

// ------------------------------------------------------------------ decoder

#[derive(Clone, Debug)]
pub struct Rr {
    /// owner name, decompressed, lower-level wire form (labels + root)
    pub name: Vec<u8>,
    pub rtype: u16,
    pub rclass: u16,
    pub ttl: u32,
    pub rdata: Vec<u8>,
}

#[derive(Clone, Debug)]
pub struct Message {
    pub h: Header,
    pub questions: Vec<Question>,
    pub answers: Vec<Rr>,
    pub authority: Vec<Rr>,
    pub additional: Vec<Rr>,
    /// number of bytes consumed
    pub consumed: usize,
}

/// Read a possibly compressed name at `i`; returns (decompressed wire form, index after the name).
fn read_name(b: &[u8], mut i: usize) -> Result<(Vec<u8>, usize), String> {
    let mut out = Vec::new();
    let mut after: Option<usize> = None;
    let mut jumps = 0;
    loop {
        if i >= b.len() {
            return Err("name runs past the message".into());
        }
        let l = b[i] as usize;
        if l == 0 {
            out.push(0);
            i += 1;
            break;
        }
        if l & 0xc0 == 0xc0 {
            if i + 1 >= b.len() {
                return Err("truncated compression pointer".into());
            }
            let p = ((l & 0x3f) << 8) | b[i + 1] as usize;
            if after.is_none() {
                after = Some(i + 2);
            }
            jumps += 1;
            if jumps > 64 || p >= b.len() {
                return Err("bad compression pointer".into());
            }
            i = p;
            continue;
        }
        if l & 0xc0 != 0 {
            return Err(format!("label type {:#x}", l & 0xc0));
        }
        if i + 1 + l > b.len() {
            return Err("label runs past the message".into());
        }
        out.extend_from_slice(&b[i..i + 1 + l]);
        i += 1 + l;
        if out.len() > 255 {
            return Err("name longer than 255 bytes".into());
        }
    }
    Ok((out, after.unwrap_or(i)))
}

pub fn decode(b: &[u8]) -> Result<Message, String> {
    let h = header(b).ok_or_else(|| "shorter than a DNS header".to_string())?;
    let mut i = 12;
    let mut questions = Vec::new();
    for k in 0..h.qd {
        let s = i;
        let (name, n) = read_name(b, i).map_err(|e| format!("question {}: {}", k, e))?;
        i = n;
        if i + 4 > b.len() {
            return Err(format!("question {}: type/class missing", k));
        }
        let qtype = ((b[i] as u16) << 8) | b[i + 1] as u16;
        let qclass = ((b[i + 2] as u16) << 8) | b[i + 3] as u16;
        i += 4;
        questions.push(Question {
            name_wire: name,
            qtype,
            qclass,
            raw: b[s..i].to_vec(),
        });
    }
    let mut sections: Vec<Vec<Rr>> = Vec::new();
    for (sn, count) in [("answer", h.an), ("authority", h.ns), ("additional", h.ar)] {
        let mut v = Vec::new();
        for k in 0..count {
            let (name, n) = read_name(b, i).map_err(|e| format!("{} {}: {}", sn, k, e))?;
            i = n;
            if i + 10 > b.len() {
                return Err(format!("{} {}: fixed part missing", sn, k));
            }
            let rtype = ((b[i] as u16) << 8) | b[i + 1] as u16;
            let rclass = ((b[i + 2] as u16) << 8) | b[i + 3] as u16;
            let ttl = u32::from_be_bytes([b[i + 4], b[i + 5], b[i + 6], b[i + 7]]);
            let rdlen = (((b[i + 8] as u16) << 8) | b[i + 9] as u16) as usize;
            i += 10;
            if i + rdlen > b.len() {
                return Err(format!("{} {}: RDATA of {} bytes runs past the message", sn, k, rdlen));
            }
            v.push(Rr {
                name,
                rtype,
                rclass,
                ttl,
                rdata: b[i..i + rdlen].to_vec(),
            });
            i += rdlen;
        }
        sections.push(v);
    }
    let additional = sections.pop().unwrap();
    let authority = sections.pop().unwrap();
    let answers = sections.pop().unwrap();
    Ok(Message {
        h,
        questions,
        answers,
        authority,
        additional,
        consumed: i,
    })
}

// ---------------------------------------------------------------- generator

pub fn gen_name(rng: &mut Rng) -> Vec<u8> {
    let mut v = Vec::new();
    let style = rng.below(8);
    let labels = match style {
        0 => 0, // root
        1 => 1,
        2 | 3 | 4 => rng.range(2, 4),
        5 => rng.range(5, 20),
        _ => 0,
    };
    if style >= 6 {
        // long names: fill up to (close to) 255 bytes
        let target = if style == 6 { 255 } else { rng.range(200, 254) as usize };
        while v.len() + 2 < target {
            let room = target - 1 - v.len() - 1;
            let l = room.min(if rng.chance(1, 2) { 63 } else { rng.range(1, 63) as usize });
            if l == 0 {
                break;
            }
            v.push(l as u8);
            for _ in 0..l {
                v.push(label_byte(rng));
            }
        }
        v.push(0);
        return v;
    }
    for _ in 0..labels {
        let l = match rng.below(5) {
            0 => 1,
            1 => 63,
            _ => rng.range(2, 12),
        } as usize;
        if v.len() + 1 + l + 1 > 255 {
            break;
        }
        v.push(l as u8);
        for _ in 0..l {
            v.push(label_byte(rng));
        }
    }
    v.push(0);
    v
}

fn label_byte(rng: &mut Rng) -> u8 {
    match rng.below(8) {
        0 => rng.range(1, 255) as u8, // arbitrary non-zero octet
        _ => *rng.pick(b"abcdefghijklmnopqrstuvwxyz0123456789-"),
    }
}

pub fn gen_flags_query(rng: &mut Rng) -> u16 {
    match rng.below(4) {
        0 => 0x0100,
        1 => 0x0000,
        2 => (rng.u16() & 0x7fff) & 0x7900 | 0x0100 * rng.below(2) as u16, // opcode + rd
        _ => rng.u16() & 0x7fff,
    }
}

pub fn build_query(id: u16, flags: u16, qs: &[(Vec<u8>, u16, u16)]) -> Vec<u8> {
    let mut v = Vec::new();
    v.extend_from_slice(&id.to_be_bytes());
    v.extend_from_slice(&flags.to_be_bytes());
    v.extend_from_slice(&(qs.len() as u16).to_be_bytes());
    v.extend_from_slice(&[0; 6]);
    for (n, t, c) in qs {
        v.extend_from_slice(n);
        v.extend_from_slice(&t.to_be_bytes());
        v.extend_from_slice(&c.to_be_bytes());
    }
    v
}

pub fn gen_in_a_query(rng: &mut Rng) -> Vec<u8> {
    if rng.chance(1, 40) {
        // the most questions a frame can hold: questions for the root name (5 bytes each), also
        // mixed with one-letter names
        let n = *rng.pick(&[2usize, 255, 256, 576, 577, 578, 600, 700, 800, 808]);
        let mixed = n <= 600 && rng.chance(1, 2);
        let qs: Vec<(Vec<u8>, u16, u16)> = (0..n).map(|k| (if mixed && k % 5 == 0 { vec![1u8, b'a' + (k % 26) as u8, 0] } else { vec![0u8] }, 1u16, 1u16)).collect();
        return build_query(rng.u16(), gen_flags_query(rng), &qs);
    }
    if rng.chance(1, 25) {
        // very many questions (short names, so that the query fits one frame)
        let n = *rng.pick(&[20usize, 64, 100, 101, 128, 200, 255, 256, 300, 420, 512, 575]);
        let qs: Vec<(Vec<u8>, u16, u16)> = (0..n)
            .map(|k| {
                let mut name = vec![1u8, b'a' + (k % 26) as u8];
                if k % 3 == 0 && n <= 300 {
                    name.extend_from_slice(&[2, b'x', b'0' + (k % 10) as u8]);
                }
                name.push(0);
                (name, 1u16, 1u16)
            })
            .collect();
        return build_query(rng.u16(), gen_flags_query(rng), &qs);
    }
    let n = match rng.below(8) {
        0 => 0,
        1..=4 => 1,
        5 => 2,
        6 => 3,
        _ => rng.range(4, 12),
    };
    let mut qs = Vec::new();
    let mut total = 12;
    for _ in 0..n {
        let name = gen_name(rng);
        total += name.len() + 4;
        if total > 1400 {
            break;
        }
        qs.push((name, 1u16, 1u16));
    }
    build_query(rng.u16(), gen_flags_query(rng), &qs)
}

/// Queries that must not be answered: a non-IN/A question somewhere, or a truncation.
pub fn gen_fault(rng: &mut Rng) -> Vec<u8> {
    match rng.below(4) {
        0 | 1 => {
            let n = rng.range(1, 4) as usize;
            let bad = rng.usize_below(n);
            let mut qs = Vec::new();
            for k in 0..n {
                let (t, c) = if k == bad {
                    match rng.below(8) {
                        6 => (1, *rng.pick(&[0x8001u16, 0x0101, 0x0100, 0, 2, 4, 254, 0xffff])), // one bit / byte next to IN (mDNS unicast-response bit ...)
                        7 => (*rng.pick(&[0x8001u16, 0x0101, 0x0100, 0, 2, 5, 0xffff]), 1),     // ... and next to A
                        0 => (16u16, 3u16), // TXT CH (version.bind)
                        1 => (28, 1),       // AAAA
                        2 => (255, 1),      // ANY
                        3 => (1, 3),        // A CH
                        4 => (1, 255),      // A ANY-class
                        _ => (rng.u16().max(2), rng.u16()),
                    }
                } else {
                    (1, 1)
                };
                qs.push((gen_name(rng), t, c));
            }
            build_query(rng.u16(), gen_flags_query(rng), &qs)
        }
        _ => {
            let mut v = gen_in_a_query(rng);
            if v.len() <= 12 {
                v = build_query(rng.u16(), 0x0100, &[(gen_name(rng), 1, 1)]);
            }
            let k = rng.range(0, v.len() as u64 - 1) as usize;
            v.truncate(k);
            v
        }
    }
}

/// A response-typed message (QR=1), e.g. what a resolver would send back.
pub fn gen_response(rng: &mut Rng) -> Vec<u8> {
    let name = gen_name(rng);
    let mut v = build_query(rng.u16(), 0x8000 | (rng.u16() & 0x7f8f), &[(name.clone(), 1, 1)]);
    if rng.chance(2, 3) {
        // one answer
        v[6..8].copy_from_slice(&1u16.to_be_bytes());
        v.extend_from_slice(&name);
        v.extend_from_slice(&[0, 1, 0, 1, 0, 0, 0xa8, 0xc0, 0, 4]);
        v.extend_from_slice(&rng.bytes(4));
    }
    v
}
