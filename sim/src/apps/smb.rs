//! SMB1 / SMB2 over a NetBIOS session message: request generator and
//! independent response decoders for C17.

use crate::rng::Rng;

pub fn nbt(payload: &[u8]) -> Vec<u8> {
    let mut v = vec![0u8, ((payload.len() >> 16) & 1) as u8];
    v.extend_from_slice(&((payload.len() & 0xffff) as u16).to_be_bytes());
    v.extend_from_slice(payload);
    v
}

#[derive(Clone, Debug, Default)]
pub struct Smb1Hdr {
    pub command: u8,
    pub status: u32,
    pub flags: u8,
    pub flags2: u16,
    pub pid_high: u16,
    pub signature: [u8; 8],
    pub tid: u16,
    pub pid_low: u16,
    pub uid: u16,
    pub mid: u16,
}

impl Smb1Hdr {
    pub fn encode(&self) -> Vec<u8> {
        let mut v = b"\xffSMB".to_vec();
        v.push(self.command);
        v.extend_from_slice(&self.status.to_le_bytes());
        v.push(self.flags);
        v.extend_from_slice(&self.flags2.to_le_bytes());
        v.extend_from_slice(&self.pid_high.to_le_bytes());
        v.extend_from_slice(&self.signature);
        v.extend_from_slice(&[0, 0]);
        v.extend_from_slice(&self.tid.to_le_bytes());
        v.extend_from_slice(&self.pid_low.to_le_bytes());
        v.extend_from_slice(&self.uid.to_le_bytes());
        v.extend_from_slice(&self.mid.to_le_bytes());
        v
    }
    pub fn decode(b: &[u8]) -> Option<Smb1Hdr> {
        if b.len() < 32 || &b[..4] != b"\xffSMB" {
            return None;
        }
        let w = |i: usize| u16::from_le_bytes([b[i], b[i + 1]]);
        let mut signature = [0u8; 8];
        signature.copy_from_slice(&b[14..22]);
        Some(Smb1Hdr {
            command: b[4],
            status: u32::from_le_bytes([b[5], b[6], b[7], b[8]]),
            flags: b[9],
            flags2: w(10),
            pid_high: w(12),
            signature,
            tid: w(24),
            pid_low: w(26),
            uid: w(28),
            mid: w(30),
        })
    }
}

#[derive(Clone, Debug, Default)]
pub struct Smb2Hdr {
    pub credit_charge: u16,
    pub status: u32,
    pub command: u16,
    pub credits: u16,
    pub flags: u32,
    pub next: u32,
    pub message_id: u64,
    pub async_id: u64,
    pub session_id: u64,
    pub signature: [u8; 16],
}

impl Smb2Hdr {
    pub fn encode(&self) -> Vec<u8> {
        let mut v = b"\xfeSMB".to_vec();
        v.extend_from_slice(&64u16.to_le_bytes());
        v.extend_from_slice(&self.credit_charge.to_le_bytes());
        v.extend_from_slice(&self.status.to_le_bytes());
        v.extend_from_slice(&self.command.to_le_bytes());
        v.extend_from_slice(&self.credits.to_le_bytes());
        v.extend_from_slice(&self.flags.to_le_bytes());
        v.extend_from_slice(&self.next.to_le_bytes());
        v.extend_from_slice(&self.message_id.to_le_bytes());
        v.extend_from_slice(&self.async_id.to_le_bytes());
        v.extend_from_slice(&self.session_id.to_le_bytes());
        v.extend_from_slice(&self.signature);
        v
    }
    pub fn decode(b: &[u8]) -> Option<Smb2Hdr> {
        if b.len() < 64 || &b[..4] != b"\xfeSMB" {
            return None;
        }
        let w16 = |i: usize| u16::from_le_bytes([b[i], b[i + 1]]);
        let w32 = |i: usize| u32::from_le_bytes([b[i], b[i + 1], b[i + 2], b[i + 3]]);
        let w64 = |i: usize| {
            let mut x = [0u8; 8];
            x.copy_from_slice(&b[i..i + 8]);
            u64::from_le_bytes(x)
        };
        let mut signature = [0u8; 16];
        signature.copy_from_slice(&b[48..64]);
        Some(Smb2Hdr {
            credit_charge: w16(6),
            status: w32(8),
            command: w16(12),
            credits: w16(14),
            flags: w32(16),
            next: w32(20),
            message_id: w64(24),
            async_id: w64(32),
            session_id: w64(40),
            signature,
        })
    }
}

/// What a generated request is, as far as C17's preconditions go (recomputed
/// by the oracle from the bytes with `classify`).
#[derive(Clone, Debug, PartialEq, Eq)]
pub enum SmbClass {
    Smb1Negotiate { dialects: Vec<Vec<u8>> },
    Smb1SessionSetup,
    Smb2Negotiate { dialects: Vec<u16> },
    Smb2SessionSetup,
    /// flagged as a response: must not be answered
    ResponseFlagged,
    /// other command: must not be answered
    OtherCommand,
    DontCare(&'static str),
    NotSmb,
}

pub const SMB1_KNOWN: [&str; 3] = ["NT LM 0.12", "SMB 2.???", "SMB 2.002"];
pub const SMB2_KNOWN: [u16; 7] = [0x0202, 0x0210, 0x02ff, 0x0300, 0x0302, 0x0310, 0x0311];

pub fn classify(b: &[u8]) -> SmbClass {
    if b.len() < 8 || b[0] != 0 {
        return SmbClass::NotSmb;
    }
    let smb1 = &b[4..8] == b"\xffSMB";
    let smb2 = &b[4..8] == b"\xfeSMB";
    if !smb1 && !smb2 {
        return SmbClass::NotSmb;
    }
    if b[1] != 0 {
        return SmbClass::DontCare("nbt-flags-not-zero");
    }
    let nlen = (((b[2] as usize) << 8) | b[3] as usize) as usize;
    if nlen != b.len() - 4 {
        return SmbClass::DontCare("nbt-length-mismatch");
    }
    let m = &b[4..];
    if smb1 {
        let h = match Smb1Hdr::decode(m) {
            Some(h) => h,
            None => return SmbClass::DontCare("smb1-header-truncated"),
        };
        if h.flags & 0x80 != 0 {
            return SmbClass::ResponseFlagged;
        }
        let p = &m[32..];
        match h.command {
            0x72 => {
                if p.len() < 3 {
                    return SmbClass::DontCare("negotiate-truncated");
                }
                let bc = u16::from_le_bytes([p[1], p[2]]) as usize;
                if p[0] != 0 {
                    return SmbClass::DontCare("negotiate-wordcount-not-zero");
                }
                let d = &p[3..];
                if bc != d.len() || bc == 0 {
                    return SmbClass::DontCare("negotiate-bytecount-mismatch");
                }
                let mut dialects = Vec::new();
                let mut i = 0;
                while i < d.len() {
                    // buffer format byte + NUL terminated string
                    let fmt = d[i];
                    let _ = fmt;
                    let e = match d[i + 1..].iter().position(|c| *c == 0) {
                        Some(e) => i + 1 + e,
                        None => return SmbClass::DontCare("negotiate-dialect-unterminated"),
                    };
                    dialects.push(d[i + 1..e].to_vec());
                    i = e + 1;
                }
                if dialects.is_empty() {
                    return SmbClass::DontCare("negotiate-no-dialect");
                }
                SmbClass::Smb1Negotiate { dialects }
            }
            0x73 => {
                // extended security session setup: 12 words
                if p.len() < 27 {
                    return SmbClass::DontCare("session-setup-truncated");
                }
                if p[0] != 12 {
                    return SmbClass::DontCare("session-setup-not-extended-security");
                }
                let blob = u16::from_le_bytes([p[15], p[16]]) as usize;
                let bc = u16::from_le_bytes([p[25], p[26]]) as usize;
                let d = &p[27..];
                if blob == 0 {
                    return SmbClass::DontCare("session-setup-empty-blob");
                }
                if bc != d.len() || blob > d.len() {
                    return SmbClass::DontCare("session-setup-lengths-mismatch");
                }
                SmbClass::Smb1SessionSetup
            }
            _ => SmbClass::OtherCommand,
        }
    } else {
        let h = match Smb2Hdr::decode(m) {
            Some(h) => h,
            None => return SmbClass::DontCare("smb2-header-truncated"),
        };
        if h.flags & 1 != 0 {
            return SmbClass::ResponseFlagged;
        }
        let p = &m[64..];
        match h.command {
            0 => {
                if p.len() < 36 {
                    return SmbClass::DontCare("negotiate-truncated");
                }
                let count = u16::from_le_bytes([p[2], p[3]]) as usize;
                if count == 0 {
                    return SmbClass::DontCare("negotiate-no-dialect");
                }
                if p.len() != 36 + 2 * count {
                    return SmbClass::DontCare("negotiate-dialect-count-mismatch");
                }
                let dialects = (0..count)
                    .map(|k| u16::from_le_bytes([p[36 + 2 * k], p[37 + 2 * k]]))
                    .collect();
                SmbClass::Smb2Negotiate { dialects }
            }
            1 => {
                if p.len() < 24 {
                    return SmbClass::DontCare("session-setup-truncated");
                }
                let blob = u16::from_le_bytes([p[14], p[15]]) as usize;
                if blob == 0 {
                    return SmbClass::DontCare("session-setup-empty-blob");
                }
                if p.len() != 24 + blob {
                    return SmbClass::DontCare("session-setup-lengths-mismatch");
                }
                SmbClass::Smb2SessionSetup
            }
            _ => SmbClass::OtherCommand,
        }
    }
}

// ---------------------------------------------------------------- generator

pub fn gen_hdr1(rng: &mut Rng, command: u8) -> Smb1Hdr {
    let mut signature = [0u8; 8];
    if rng.chance(1, 3) {
        signature.copy_from_slice(&rng.bytes(8));
    }
    Smb1Hdr {
        command,
        status: if rng.chance(1, 4) { rng.u32() } else { 0 },
        flags: rng.u8() & 0x7f,
        flags2: rng.u16(),
        pid_high: rng.u16(),
        signature,
        tid: rng.u16(),
        pid_low: rng.u16(),
        uid: rng.u16(),
        mid: rng.u16(),
    }
}

pub fn gen_hdr2(rng: &mut Rng, command: u16) -> Smb2Hdr {
    let mut signature = [0u8; 16];
    if rng.chance(1, 3) {
        signature.copy_from_slice(&rng.bytes(16));
    }
    Smb2Hdr {
        credit_charge: rng.u16(),
        status: if rng.chance(1, 4) { rng.u32() } else { 0 },
        command,
        credits: rng.u16(),
        flags: rng.u32() & !1,
        next: 0,
        message_id: if rng.chance(1, 3) { rng.below(4) } else { rng.u64() },
        async_id: if rng.chance(1, 2) { 0 } else { rng.u64() },
        session_id: if rng.chance(1, 2) { 0 } else { rng.u64() },
        signature,
    }
}

/// Every dialect string an SMB1 negotiate can legitimately name (MS-CIFS / MS-SMB / Samba): a
/// responder may support any subset of these, but it cannot "select" a name that is none of them.
pub const SMB1_REAL_DIALECTS: [&str; 17] = [
    "PC NETWORK PROGRAM 1.0",
    "PCLAN1.0",
    "MICROSOFT NETWORKS 1.03",
    "MICROSOFT NETWORKS 3.0",
    "LANMAN1.0",
    "Windows for Workgroups 3.1a",
    "LM1.2X002",
    "DOS LM1.2X002",
    "LANMAN1.2",
    "LANMAN2.1",
    "DOS LANMAN2.1",
    "Samba",
    "NT LM 0.12",
    "NT LANMAN 1.0",
    "CIFS",
    "SMB 2.002",
    "SMB 2.???",
];

const SMB1_DIALECTS: [&str; 8] = [
    "PC NETWORK PROGRAM 1.0",
    "LANMAN1.0",
    "Windows for Workgroups 3.1a",
    "LM1.2X002",
    "LANMAN2.1",
    "NT LM 0.12",
    "SMB 2.002",
    "SMB 2.???",
];

pub fn gen_smb1_negotiate(rng: &mut Rng) -> Vec<u8> {
    let h = gen_hdr1(rng, 0x72);
    let mut d = Vec::new();
    if rng.chance(1, 12) {
        // a very long list of short made-up dialects with one real dialect behind it: the
        // index of the selected dialect needs more than 8 bits
        let lead = *rng.pick(&[254usize, 255, 256, 257, 300]);
        for k in 0..lead {
            d.push(2u8);
            d.extend_from_slice(format!("q{:03}", k % 1000).as_bytes());
            d.push(0);
        }
        d.push(2u8);
        d.extend_from_slice(rng.pick(&["NT LM 0.12", "NT LM 0.12", "SMB 2.002", "SMB 2.???"]).as_bytes());
        d.push(0);
    }
    if d.is_empty() && rng.chance(1, 10) {
        // many dialects and none the responder knows (some clients are that old, some scanners that
        // creative): names of any bytes but NUL, more than a kilobyte of them in all
        let count = *rng.pick(&[40usize, 100, 128, 200]);
        let high = rng.chance(1, 2);
        let dense = high && rng.chance(1, 2);
        for k in 0..count {
            d.push(2u8);
            let l = rng.range(4, 14) as usize;
            for j in 0..l {
                let c = if high && (dense || rng.chance(1, 6)) { rng.range(0x80, 0xff) as u8 } else { rng.range(0x21, 0x7e) as u8 };
                d.push(if j == 0 { b'A' + (k % 26) as u8 } else { c });
            }
            d.push(0);
        }
        let mut m = h.encode();
        m.push(0);
        m.extend_from_slice(&(d.len() as u16).to_le_bytes());
        m.extend_from_slice(&d);
        return nbt(&m);
    }
    let n = if d.is_empty() { rng.range(1, 8) as usize } else { rng.below(2) as usize };
    for _ in 0..n {
        d.push(2u8);
        let name: Vec<u8> = match rng.below(6) {
            0 => {
                let l = rng.range(1, 12) as usize;
                let high = rng.chance(1, 3);
                (0..l).map(|_| if high && rng.chance(1, 3) { rng.range(0x80, 0xff) as u8 } else { rng.range(0x21, 0x7e) as u8 }).collect()
            }
            _ => rng.pick(&SMB1_DIALECTS).as_bytes().to_vec(),
        };
        d.extend_from_slice(&name);
        d.push(0);
    }
    let mut m = h.encode();
    m.push(0);
    m.extend_from_slice(&(d.len() as u16).to_le_bytes());
    m.extend_from_slice(&d);
    nbt(&m)
}

/// A security blob as clients send it: random bytes, a bare NTLMSSP NEGOTIATE message, or the
/// same wrapped in SPNEGO (the responder must not care).
fn gen_blob(rng: &mut Rng) -> Vec<u8> {
    let ntlm: Vec<u8> = {
        let mut v = b"NTLMSSP\0".to_vec();
        v.extend_from_slice(&1u32.to_le_bytes());
        v.extend_from_slice(&rng.u32().to_le_bytes());
        v.extend_from_slice(&[0; 16]);
        v.extend_from_slice(&[6, 1, 0xb1, 0x1d, 0, 0, 0, 0x0f]);
        v
    };
    match rng.below(6) {
        0 => ntlm,
        1 => {
            let mut v = vec![0x60, (ntlm.len() + 32) as u8, 0x06, 0x06, 0x2b, 0x06, 0x01, 0x05, 0x05, 0x02, 0xa0, (ntlm.len() + 22) as u8, 0x30, (ntlm.len() + 20) as u8];
            v.extend_from_slice(&[0xa0, 0x0e, 0x30, 0x0c, 0x06, 0x0a, 0x2b, 0x06, 0x01, 0x04, 0x01, 0x82, 0x37, 0x02, 0x02, 0x0a, 0xa2, (ntlm.len() + 2) as u8, 0x04, ntlm.len() as u8]);
            v.extend_from_slice(&ntlm);
            v
        }
        2 => vec![rng.u8()],
        3 => rng.bytes_range(2, 40),
        _ => rng.bytes_range(40, 300),
    }
}

pub fn gen_smb1_session_setup(rng: &mut Rng) -> Vec<u8> {
    let h = gen_hdr1(rng, 0x73);
    let blob = gen_blob(rng);
    let blob_len = blob.len();
    let tail = if rng.chance(1, 2) { Vec::new() } else { rng.bytes_range(1, 30) };
    let mut m = h.encode();
    m.push(12);
    m.push(0xff);
    m.push(0);
    m.extend_from_slice(&rng.u16().to_le_bytes()); // AndXOffset
    m.extend_from_slice(&rng.u16().to_le_bytes()); // MaxBufferSize
    m.extend_from_slice(&rng.u16().to_le_bytes()); // MaxMpxCount
    m.extend_from_slice(&rng.u16().to_le_bytes()); // VcNumber
    m.extend_from_slice(&rng.u32().to_le_bytes()); // SessionKey
    m.extend_from_slice(&(blob_len as u16).to_le_bytes());
    m.extend_from_slice(&[0; 4]);
    m.extend_from_slice(&rng.u32().to_le_bytes()); // Capabilities
    m.extend_from_slice(&((blob_len + tail.len()) as u16).to_le_bytes());
    m.extend_from_slice(&blob);
    m.extend_from_slice(&tail);
    nbt(&m)
}

pub fn gen_smb2_negotiate(rng: &mut Rng) -> Vec<u8> {
    let h = gen_hdr2(rng, 0);
    let n = rng.range(1, 8) as usize;
    let mut dialects: Vec<u16> = Vec::new();
    for _ in 0..n {
        let d = match rng.below(8) {
            0 => rng.u16(),
            1 if !dialects.is_empty() => *rng.pick(&dialects), // duplicate
            _ => *rng.pick(&SMB2_KNOWN),
        };
        dialects.push(d);
    }
    if rng.chance(1, 6) {
        // none supported
        dialects = (0..n).map(|_| 0x0400 + rng.below(0x100) as u16).collect();
    }
    let mut m = h.encode();
    m.extend_from_slice(&36u16.to_le_bytes());
    m.extend_from_slice(&(dialects.len() as u16).to_le_bytes());
    m.extend_from_slice(&(rng.u16() & 3).to_le_bytes()); // SecurityMode
    m.extend_from_slice(&[0, 0]);
    m.extend_from_slice(&rng.u32().to_le_bytes()); // Capabilities
    m.extend_from_slice(&rng.bytes(16)); // ClientGuid
    m.extend_from_slice(&rng.bytes(8)); // NegotiateContextOffset/Count/Reserved2 or ClientStartTime
    for d in &dialects {
        m.extend_from_slice(&d.to_le_bytes());
    }
    nbt(&m)
}

pub fn gen_smb2_session_setup(rng: &mut Rng) -> Vec<u8> {
    let h = gen_hdr2(rng, 1);
    let blob = gen_blob(rng);
    let blob_len = blob.len();
    let mut m = h.encode();
    m.extend_from_slice(&25u16.to_le_bytes());
    m.push(rng.u8() & 1);
    m.push(rng.u8() & 3);
    m.extend_from_slice(&rng.u32().to_le_bytes()); // Capabilities
    m.extend_from_slice(&0u32.to_le_bytes()); // Channel
    m.extend_from_slice(&0x58u16.to_le_bytes()); // SecurityBufferOffset
    m.extend_from_slice(&(blob_len as u16).to_le_bytes());
    m.extend_from_slice(&rng.u64().to_le_bytes()); // PreviousSessionId
    m.extend_from_slice(&blob);
    nbt(&m)
}

/// SMB1 session setup in the layout without extended security (13 words: OEM and Unicode
/// password lengths), with every kind of length value. Whether it is answered is open (the
/// statement speaks of security blobs); it must not hurt.
pub fn gen_smb1_session_setup_wc13(rng: &mut Rng) -> Vec<u8> {
    let h = gen_hdr1(rng, 0x73);
    let edge = |rng: &mut Rng| -> u16 { *rng.pick(&[0u16, 1, 24, 255, 256, 0x7fff, 0x8000, 0xfffe, 0xffff]) };
    let (l1, l2) = (edge(rng), edge(rng));
    let data = rng.bytes_range(0, 80);
    let mut m = h.encode();
    m.push(13);
    m.push(0xff);
    m.push(0);
    m.extend_from_slice(&rng.u16().to_le_bytes()); // AndXOffset
    m.extend_from_slice(&rng.u16().to_le_bytes()); // MaxBufferSize
    m.extend_from_slice(&rng.u16().to_le_bytes()); // MaxMpxCount
    m.extend_from_slice(&rng.u16().to_le_bytes()); // VcNumber
    m.extend_from_slice(&rng.u32().to_le_bytes()); // SessionKey
    m.extend_from_slice(&l1.to_le_bytes()); // OEMPasswordLen
    m.extend_from_slice(&l2.to_le_bytes()); // UnicodePasswordLen
    m.extend_from_slice(&[0; 4]);
    m.extend_from_slice(&rng.u32().to_le_bytes()); // Capabilities
    m.extend_from_slice(&(data.len() as u16).to_le_bytes());
    m.extend_from_slice(&data);
    nbt(&m)
}

/// Requests that must not be answered: response flag set, or another command.
pub fn gen_fault(rng: &mut Rng) -> Vec<u8> {
    let mut v = match rng.below(4) {
        0 => gen_smb1_negotiate(rng),
        1 => gen_smb1_session_setup(rng),
        2 => gen_smb2_negotiate(rng),
        _ => gen_smb2_session_setup(rng),
    };
    let smb1 = v[4] == 0xff;
    if rng.chance(1, 2) {
        // response flag
        if smb1 {
            v[4 + 9] |= 0x80;
        } else {
            v[4 + 16] |= 1;
        }
    } else {
        // other command
        if smb1 {
            let mut c = rng.u8();
            while c == 0x72 || c == 0x73 {
                c = rng.u8();
            }
            v[4 + 4] = c;
        } else {
            // the command is a 16-bit field: values whose low byte alone would be a known command
            let c = if rng.chance(1, 3) { *rng.pick(&[0x0100u16, 0x0101, 0x0200, 0x8000, 0x8001, 0xff00, 0xff01, 0x0102, 0xffff]) } else { rng.range(2, 0x20) as u16 };
            v[4 + 12..4 + 14].copy_from_slice(&c.to_le_bytes());
        }
    }
    v
}
