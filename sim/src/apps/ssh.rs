//! SSH identification strings (RFC 4253 section 4.2): reference recogniser and generator.

use crate::rng::Rng;

pub const REPLY: &[u8] = b"SSH-2.0-1\r\n";

#[derive(Clone, Debug, PartialEq, Eq)]
pub enum SshClass {
    /// well-formed identification, terminated by CR LF at `end`
    Complete { end: usize },
    /// no CR LF terminator (yet)
    Unterminated,
    Malformed(&'static str),
    DontCare(&'static str),
    /// does not begin with SSH-2.0 / SSH-1.99
    NotSsh,
}

pub fn classify(b: &[u8]) -> SshClass {
    if !(b.starts_with(b"SSH-2.0") || b.starts_with(b"SSH-1.99")) {
        return SshClass::NotSsh;
    }
    if b.contains(&0) {
        return SshClass::DontCare("nul-byte");
    }
    let mut i = 4;
    // protoversion: digits and dots up to '-'
    loop {
        if i >= b.len() {
            return SshClass::Unterminated;
        }
        let c = b[i];
        if c == b'-' {
            break;
        }
        if !(c.is_ascii_digit() || c == b'.') {
            return SshClass::Malformed("version");
        }
        i += 1;
    }
    i += 1;
    let sw_start = i;
    // softwareversion up to SP or CR LF; a CR not followed by LF belongs to the string
    let mut in_comment = false;
    loop {
        if i >= b.len() {
            return SshClass::Unterminated;
        }
        if b[i] == b'\r' {
            if i + 1 >= b.len() {
                return SshClass::Unterminated;
            }
            if b[i + 1] == b'\n' {
                if !in_comment && i == sw_start {
                    return SshClass::DontCare("empty-software");
                }
                let end = i + 2;
                if end < b.len() {
                    return SshClass::DontCare("bytes-after-crlf");
                }
                return SshClass::Complete { end };
            }
        } else if b[i] == b' ' && !in_comment {
            if i == sw_start {
                return SshClass::DontCare("empty-software");
            }
            in_comment = true;
        }
        i += 1;
    }
}

fn text(rng: &mut Rng, n: usize, allow_sp: bool) -> Vec<u8> {
    let style = rng.below(3);
    let mut v = Vec::with_capacity(n);
    for _ in 0..n {
        let c = match style {
            0 => *rng.pick(b"abcdefghijklmnopqrstuvwxyzOpenSSH_0123456789.-+"),
            1 => rng.range(0x21, 0x7e) as u8,
            _ => {
                if rng.chance(1, 10) {
                    b'\r' // lone CR inside the string
                } else {
                    rng.range(1, 255) as u8
                }
            }
        };
        let c = if c == 0 || c == b'\n' { b'x' } else { c };
        v.push(if !allow_sp && c == b' ' { b'_' } else { c });
    }
    // a CR must not be directly followed by LF inside the string; LF was removed above
    v
}

pub fn gen_valid(rng: &mut Rng) -> Vec<u8> {
    let mut o = Vec::new();
    match rng.below(6) {
        0 | 1 | 2 => o.extend_from_slice(b"SSH-2.0"),
        3 | 4 => o.extend_from_slice(b"SSH-1.99"),
        _ => {
            o.extend_from_slice(if rng.chance(1, 2) { b"SSH-2.0" } else { b"SSH-1.99" });
            let n = rng.range(1, 6) as usize;
            for _ in 0..n {
                o.push(*rng.pick(b"0123456789."));
            }
        }
    }
    o.push(b'-');
    let n = match rng.below(4) {
        0 => 1,
        1 | 2 => rng.range(2, 20),
        _ => rng.range(21, 230),
    } as usize;
    let mut sw = text(rng, n, false);
    if sw.last() == Some(&b'\r') {
        // keep "x CR CR LF" reachable but deliberate
        if rng.chance(1, 2) {
            sw.pop();
            sw.push(b'y');
        }
    }
    let sw = if rng.chance(1, 5) {
        // what real clients send: product, '_' and a release made of numbers of any size
        let num = |rng: &mut Rng| -> String {
            match rng.below(5) {
                0 => rng.below(10).to_string(),
                1 => rng.below(100).to_string(),
                2 => rng.range(1000, 99999).to_string(),
                3 => format!("20{:02}{:02}{:02}", rng.below(40), rng.range(1, 12), rng.range(1, 28)),
                _ => rng.u64().to_string(),
            }
        };
        let product = *rng.pick(&["OpenSSH", "paramiko", "libssh2", "dropbear", "libssh", "Build", "PuTTY_Release", "mod_sftp", "Go", "JSCH"]);
        let mut rel = num(rng);
        for _ in 0..rng.below(3) {
            rel.push('.');
            rel.push_str(&num(rng));
        }
        if rng.chance(1, 3) {
            rel.push_str(*rng.pick(&["p1", "-beta", "_1", "rc2"]));
        }
        format!("{}_{}", product, rel).into_bytes()
    } else {
        sw
    };
    o.extend_from_slice(&sw);
    if rng.chance(1, 2) {
        o.push(b' ');
        let n = rng.range(0, 40) as usize;
        o.extend_from_slice(&text(rng, n, true));
    }
    o.extend_from_slice(b"\r\n");
    o
}

/// Identification strings that must not be answered (plus, one time in seven, the open cases:
/// an empty software field, a NUL octet - the statement does not say, but nothing may crash).
pub fn gen_fault(rng: &mut Rng) -> Vec<u8> {
    let mut v = gen_valid(rng);
    match rng.below(7) {
        5 => {
            let ver: &[u8] = if rng.chance(1, 2) { b"SSH-2.0-" } else { b"SSH-1.99-" };
            v = ver.to_vec();
            match rng.below(4) {
                0 => {}
                1 => v.extend_from_slice(b" only a comment"),
                2 => v.push(b' '),
                _ => v.extend_from_slice(b"\r"),
            }
            v.extend_from_slice(b"\r\n");
        }
        6 => {
            let k = rng.range(8, v.len() as u64 - 1) as usize;
            let at = k.min(v.len() - 3);
            v[at] = 0;
        }
        0 => {
            // unterminated
            v.truncate(v.len() - 2);
        }
        1 => {
            // LF only
            let l = v.len();
            v.remove(l - 2);
        }
        2 => {
            // CR only
            v.pop();
        }
        3 => {
            // garbage in the protocol version
            let dash = 4 + v[4..].iter().position(|c| *c == b'-').unwrap();
            v.insert(dash, *rng.pick(b"xX_ /"));
        }
        _ => {
            // cut somewhere after the signature
            let k = rng.range(8, v.len() as u64 - 1) as usize;
            v.truncate(k);
        }
    }
    v
}
