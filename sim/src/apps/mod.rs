//! Application-layer generators and reference decoders used by the simulated
//! clients (generation) and by the oracles (independent decoding). Oracles
//! never trust a generator's intent: they classify the delivered bytes again.

pub mod dns;
pub mod ghost;
pub mod http;
pub mod rpc;
pub mod sig;
pub mod smb;
pub mod ssh;
pub mod stun;

use crate::rng::Rng;

#[derive(Clone, Copy, Debug, PartialEq, Eq, Hash, PartialOrd, Ord)]
pub enum App {
    Http,
    Ssh,
    Ghost,
    Stun,
    Dns,
    Rpc,
    Smb1,
    Smb2,
    Noise,
}

pub const APPS: [App; 9] = [
    App::Http,
    App::Ssh,
    App::Ghost,
    App::Stun,
    App::Dns,
    App::Rpc,
    App::Smb1,
    App::Smb2,
    App::Noise,
];

#[derive(Clone, Copy, Debug, PartialEq, Eq, Hash)]
pub enum Flavor {
    /// a request the protocol's property says must be answered
    Valid,
    /// a near miss that must not be answered (or is a don't-care)
    Fault,
    /// a message the protocol marks as a reply
    ResponseTyped,
    /// hostile / malformed (robustness only)
    Hostile,
}

/// One application message. `over_tcp` selects the framing where it differs (RPC record mark).
pub fn gen(app: App, flavor: Flavor, over_tcp: bool, rng: &mut Rng) -> Vec<u8> {
    match (app, flavor) {
        (App::Http, Flavor::Valid) if over_tcp && rng.chance(1, 30) => http::gen_jumbo(rng),
        (App::Http, Flavor::Valid) => http::gen_valid(rng),
        (App::Http, Flavor::Fault) => http::gen_fault(rng),
        (App::Http, Flavor::ResponseTyped) => {
            let mut v = b"HTTP/1.1 401 Unauthorized\nServer: nginx/1.14.2\nContent-Length: 4\n\nabc\n".to_vec();
            if rng.chance(1, 2) {
                v = b"HTTP/1.1 200 OK\r\nContent-Length: 0\r\n\r\n".to_vec();
            }
            v
        }
        (App::Http, Flavor::Hostile) => {
            let mut v = http::gen_valid(rng);
            mutate(&mut v, rng);
            v
        }
        (App::Ssh, Flavor::Valid) => ssh::gen_valid(rng),
        (App::Ssh, Flavor::Fault) => ssh::gen_fault(rng),
        (App::Ssh, Flavor::ResponseTyped) => ssh::REPLY.to_vec(),
        (App::Ssh, Flavor::Hostile) => {
            let mut v = ssh::gen_valid(rng);
            mutate(&mut v, rng);
            v
        }
        (App::Ghost, Flavor::Hostile) => {
            let mut v = ghost::gen_request(rng);
            mutate(&mut v, rng);
            v
        }
        (App::Ghost, _) => ghost::gen_request(rng),
        (App::Stun, Flavor::Valid) if rng.chance(1, 16) => polyglot_stun_dns(rng),
        (App::Stun, Flavor::Valid) => stun::gen_binding_request(rng),
        (App::Stun, Flavor::Fault) if rng.chance(1, 6) => sig::companion_payload(rng),
        (App::Stun, Flavor::Fault) if rng.chance(1, 3) => {
            // one of the cookie-less (end-anchored) forms followed by trailing bytes: it completes
            // no signature as a datagram, and must not be served by the STUN responder
            let fl = *rng.pick(&[0u8, 2, 4, 6]);
            let mut m = if rng.chance(1, 2) {
                stun::build(0x0001, &stun::gen_id(rng, false), &[(3, vec![0, 0, 0, fl])])
            } else {
                stun::build(0x0001, &stun::gen_id(rng, false), &[])
            };
            let extra = *rng.pick(&[1usize, 2, 4, 8, 20, 100]);
            m.extend_from_slice(&rng.bytes(extra));
            m
        }
        (App::Stun, Flavor::Fault) | (App::Stun, Flavor::ResponseTyped) => stun::gen_non_request(rng),
        (App::Stun, Flavor::Hostile) => stun::gen_hostile(rng),
        (App::Dns, Flavor::Valid) if rng.chance(1, 16) => polyglot_stun_dns(rng),
        (App::Dns, Flavor::Valid) => dns::gen_in_a_query(rng),
        (App::Dns, Flavor::Fault) => dns::gen_fault(rng),
        (App::Dns, Flavor::ResponseTyped) => dns::gen_response(rng),
        (App::Dns, Flavor::Hostile) => {
            let mut v = dns::gen_in_a_query(rng);
            mutate(&mut v, rng);
            v
        }
        (App::Rpc, Flavor::Valid) => {
            let mut c = rpc::gen_call(rng);
            if over_tcp && rng.chance(1, 30) {
                // a call that does not fit one frame (arguments are opaque to the responder)
                let n = *rng.pick(&[4000usize, 8192, 12000, 20000]);
                c.args = rng.bytes(n);
            }
            if over_tcp && rng.chance(1, 12) {
                return c.encode_tcp_fragments(rng);
            }
            if over_tcp && c.args.len() < 64 && rng.chance(1, 16) {
                // a call with a run of tiny records around it in the same segment: empty records,
                // records too short to be a message - few, or hundreds
                let n = *rng.pick(&[1usize, 2, 3, 17, 255, 256, 257, 300]);
                let tiny = |rng: &mut Rng, v: &mut Vec<u8>| match rng.below(4) {
                    0 | 1 | 2 => v.extend_from_slice(&[0x80, 0, 0, 0]),
                    _ => {
                        v.extend_from_slice(&[0x80, 0, 0, 4]);
                        v.extend_from_slice(&rng.bytes(4));
                    }
                };
                let mut v = Vec::new();
                let before = rng.chance(1, 3);
                if before {
                    for _ in 0..n.min(300) {
                        v.extend_from_slice(&[0x80, 0, 0, 0]);
                    }
                }
                v.extend_from_slice(&c.encode_tcp());
                if !before {
                    for _ in 0..n {
                        tiny(rng, &mut v);
                    }
                }
                return v;
            }
            if over_tcp {
                c.encode_tcp()
            } else {
                c.encode()
            }
        }
        (App::Rpc, Flavor::Fault) => {
            // truncated call
            let c = rpc::gen_call(rng);
            let mut v = if over_tcp { c.encode_tcp() } else { c.encode() };
            let k = rng.range(1, v.len() as u64 - 1) as usize;
            v.truncate(k);
            v
        }
        (App::Rpc, Flavor::ResponseTyped) => {
            let b = rpc::gen_reply_msg(rng);
            if over_tcp && b.len() > 8 && rng.chance(1, 3) {
                // the same reply as a record of two or three fragments
                let c1 = rng.range(1, b.len() as u64 - 1) as usize;
                let mut v = (c1 as u32).to_be_bytes().to_vec();
                v.extend_from_slice(&b[..c1]);
                if rng.chance(1, 3) {
                    v.extend_from_slice(&[0, 0, 0, 0]);
                }
                v.extend_from_slice(&(0x8000_0000u32 | (b.len() - c1) as u32).to_be_bytes());
                v.extend_from_slice(&b[c1..]);
                v
            } else if over_tcp {
                let mut v = (0x8000_0000u32 | b.len() as u32).to_be_bytes().to_vec();
                v.extend_from_slice(&b);
                v
            } else {
                b
            }
        }
        (App::Rpc, Flavor::Hostile) => {
            let mut c = rpc::gen_call(rng);
            match rng.below(3) {
                0 => c.cred = rng.bytes_range(0, 64),
                1 => c.rpcvers = rng.below(256) as u32,
                _ => {}
            }
            let mut v = if over_tcp { c.encode_tcp() } else { c.encode() };
            if rng.chance(1, 2) {
                // credential length lies
                let off = if over_tcp { 32 } else { 28 };
                if v.len() >= off + 4 {
                    let l = rng.edge_u32();
                    v[off..off + 4].copy_from_slice(&l.to_be_bytes());
                }
            } else {
                mutate(&mut v, rng);
            }
            v
        }
        (App::Smb1, Flavor::Valid) | (App::Smb2, Flavor::Valid) if rng.chance(1, 10) => {
            // two NetBIOS session messages in one go: the first one is the request of this segment
            let mut v = gen(app, Flavor::Valid, over_tcp, rng);
            let w = match rng.below(4) {
                0 => smb::gen_fault(rng),
                1 => gen(if rng.chance(1, 2) { App::Smb1 } else { App::Smb2 }, Flavor::Valid, over_tcp, rng),
                _ => gen(app, Flavor::Valid, over_tcp, rng),
            };
            v.extend_from_slice(&w);
            v
        }
        (App::Smb1, Flavor::Valid) => {
            if rng.chance(1, 2) {
                smb::gen_smb1_negotiate(rng)
            } else {
                smb::gen_smb1_session_setup(rng)
            }
        }
        (App::Smb2, Flavor::Valid) => {
            if rng.chance(1, 2) {
                smb::gen_smb2_negotiate(rng)
            } else {
                smb::gen_smb2_session_setup(rng)
            }
        }
        (App::Smb1, Flavor::Fault) | (App::Smb1, Flavor::ResponseTyped) => loop {
            let v = smb::gen_fault(rng);
            if v[4] == 0xff {
                break v;
            }
        },
        (App::Smb2, Flavor::Fault) | (App::Smb2, Flavor::ResponseTyped) => loop {
            let v = smb::gen_fault(rng);
            if v[4] == 0xfe {
                break v;
            }
        },
        (App::Smb1, Flavor::Hostile) if rng.chance(1, 4) => smb::gen_smb1_session_setup_wc13(rng),
        (App::Smb1, Flavor::Hostile) | (App::Smb2, Flavor::Hostile) => {
            let mut v = gen(app, Flavor::Valid, over_tcp, rng);
            match rng.below(3) {
                0 => {
                    let k = rng.range(8, v.len() as u64) as usize;
                    v.truncate(k);
                }
                _ => mutate(&mut v, rng),
            }
            v
        }
        (App::Noise, _) if rng.chance(1, 3) => sig::companion_payload(rng),
        (App::Noise, _) => {
            let n = match rng.below(5) {
                0 => 0,
                1 => rng.range(1, 8),
                2 => rng.range(8, 64),
                3 => rng.range(64, 512),
                _ => rng.range(512, 1400),
            } as usize;
            rng.bytes(n)
        }
    }
}

/// A few random byte-level edits (flip, overwrite, insert, delete, truncate).
pub fn mutate(v: &mut Vec<u8>, rng: &mut Rng) {
    let n = rng.range(1, 4);
    for _ in 0..n {
        if v.is_empty() {
            v.push(rng.u8());
            continue;
        }
        let i = rng.usize_below(v.len());
        match rng.below(6) {
            0 => v[i] ^= 1 << rng.below(8),
            1 => v[i] = rng.u8(),
            2 => v.insert(i, rng.u8()),
            3 => {
                v.remove(i);
            }
            4 => v.truncate(i),
            _ => v[i] = *rng.pick(&[0u8, 0xff, 0x7f, 0x80, b'\r', b'\n', b' ', b'*']),
        }
    }
}

/// Twenty bytes that are both a cookie-less, attribute-less STUN binding request (published
/// end-anchored form) and a DNS query with one IN/A question for a two-octet name: the
/// signature decides (C10), whatever port the datagram is sent to (C19).
pub fn polyglot_stun_dns(rng: &mut Rng) -> Vec<u8> {
    let mut v = vec![0, 1, 0, 0, 0, 1, 0, 0, 0, 0, 0, 0, 2];
    v.push(*rng.pick(b"abcdefghijklmnopqrstuvwxyz0123456789"));
    v.push(*rng.pick(b"abcdefghijklmnopqrstuvwxyz0123456789"));
    v.extend_from_slice(&[0, 0, 1, 0, 1]);
    v
}
