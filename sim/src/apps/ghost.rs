//! Gh0st RAT framing: request generator and reply checker.

use crate::rng::Rng;

pub const MAGIC: &[u8] = b"Gh0st";

pub fn gen_request(rng: &mut Rng) -> Vec<u8> {
    let mut v = MAGIC.to_vec();
    let n = match rng.below(4) {
        0 => 0,
        1 => rng.range(1, 12),
        2 => rng.range(13, 200),
        _ => rng.range(200, 1400),
    } as usize;
    v.extend_from_slice(&rng.bytes(n));
    v
}

/// Defects of a Gh0st reply frame with respect to C18.
pub fn check_reply(r: &[u8]) -> Vec<(&'static str, String)> {
    let mut bad = Vec::new();
    if r.len() < 13 || &r[..5] != MAGIC {
        bad.push(("ghost-magic", format!("reply of {} bytes does not start with the Gh0st header", r.len())));
        return bad;
    }
    let total = u32::from_le_bytes([r[5], r[6], r[7], r[8]]) as usize;
    let ulen = u32::from_le_bytes([r[9], r[10], r[11], r[12]]) as usize;
    if total != r.len() {
        bad.push(("ghost-total-length", format!("declared total length {} but the frame has {} bytes", total, r.len())));
    }
    match miniz_oxide::inflate::decompress_to_vec_zlib(&r[13..]) {
        Ok(d) => {
            if d.len() != ulen {
                bad.push(("ghost-uncompressed-length", format!("declared uncompressed length {} but the body inflates to {} bytes", ulen, d.len())));
            }
        }
        Err(e) => bad.push(("ghost-zlib", format!("body does not inflate: {:?}", e.status))),
    }
    bad
}
