//! Gh0st RAT framing: request generator and reply checker.

use crate::rng::Rng;

pub const MAGIC: &[u8] = b"Gh0st";

pub fn gen_request(rng: &mut Rng) -> Vec<u8> {
    if rng.chance(1, 6) {
        // a well-formed login: truthful lengths and a complete zlib stream - which may inflate to
        // anything from nothing to a megabyte (highly compressible content)
        let n = *rng.pick(&[0usize, 1, 224, 4096, 65535, 65536, 65636, 65753, 131089, 163840, 1 << 20]);
        let fill = rng.u8();
        let mut plain = vec![fill; n];
        if n > 300 {
            plain[168..218].copy_from_slice(&[b'h'; 50]);
        }
        let body = miniz_oxide::deflate::compress_to_vec_zlib(&plain, 6);
        let mut v = MAGIC.to_vec();
        v.extend_from_slice(&((13 + body.len()) as u32).to_le_bytes());
        v.extend_from_slice(&(n as u32).to_le_bytes());
        v.extend_from_slice(&body);
        return v;
    }
    if rng.chance(1, 2) {
        // the real framing: magic, total length, uncompressed length (LE32 each), zlib stream
        let mut v = MAGIC.to_vec();
        let body_len = rng.range(0, 200) as usize;
        let total = if rng.chance(3, 4) { 13 + 2 + body_len } else { rng.u32() as usize };
        v.extend_from_slice(&(total as u32).to_le_bytes());
        v.extend_from_slice(&(if rng.chance(3, 4) { rng.range(0, 4096) as u32 } else { rng.u32() }).to_le_bytes());
        // zlib header: CMF 0x78 with any FLG that passes the header check (incl. FDICT ones), or anything
        let (cmf, flg) = match rng.below(4) {
            0 => (0x78u8, 0x9cu8),
            1 | 2 => (0x78, *rng.pick(&[0x01u8, 0x20, 0x3f, 0x5e, 0x7d, 0x9c, 0xbb, 0xda, 0xf9])),
            _ => (rng.u8(), rng.u8()),
        };
        v.push(cmf);
        v.push(flg);
        v.extend_from_slice(&rng.bytes(body_len));
        return v;
    }
    let mut v = MAGIC.to_vec();
    let n = match rng.below(4) {
        0 => 0,
        1 => rng.range(1, 12),
        2 => rng.range(13, 200),
        _ => rng.range(200, 1400),
    } as usize;
    v.extend_from_slice(&rng.bytes(n));
    v
}

/// Defects of a Gh0st reply frame with respect to C18.
pub fn check_reply(r: &[u8]) -> Vec<(&'static str, String)> {
    let mut bad = Vec::new();
    if r.len() < 13 || &r[..5] != MAGIC {
        bad.push(("ghost-magic", format!("reply of {} bytes does not start with the Gh0st header", r.len())));
        return bad;
    }
    let total = u32::from_le_bytes([r[5], r[6], r[7], r[8]]) as usize;
    let ulen = u32::from_le_bytes([r[9], r[10], r[11], r[12]]) as usize;
    if total != r.len() {
        bad.push(("ghost-total-length", format!("declared total length {} but the frame has {} bytes", total, r.len())));
    }
    match miniz_oxide::inflate::decompress_to_vec_zlib(&r[13..]) {
        Ok(d) => {
            if d.len() != ulen {
                bad.push(("ghost-uncompressed-length", format!("declared uncompressed length {} but the body inflates to {} bytes", ulen, d.len())));
            }
        }
        Err(e) => bad.push(("ghost-zlib", format!("body does not inflate: {:?}", e.status))),
    }
    bad
}
