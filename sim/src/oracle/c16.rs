//! C16 - ONC-RPC / portmapper: replies correlated, framed, advertise the contacted endpoint.

use std::net::IpAddr;

use crate::apps::rpc::{self, CallClass, Expected};
use crate::apps::sig::{self, Decision};
use crate::model::Analysis;
use crate::oracle::{Aux, Tally, Verdict, Violation};

struct Case<'a> {
    /// call message without record mark
    call: &'a [u8],
    /// whole payload as the matcher sees it (with record mark over TCP)
    wire: &'a [u8],
    reply: Option<&'a [u8]>,
    tcp: bool,
    dst: IpAddr,
    dport: u16,
    carrier: String,
    idx: usize,
    /// a later message on a connection already identified as ONC-RPC (no signature decision)
    later: bool,
}

/// Returns true if the message was a call the statement speaks about (judged).
fn judge(c: &Case, sigs: &[sig::Sig], t: &mut Tally, v: &mut Vec<Violation>) -> bool {
    let (class, call) = rpc::parse_call(c.call);
    let call = match (class, call) {
        (CallClass::Ok, Some(call)) => call,
        (CallClass::DontCare(w), _) => {
            if c.call.len() >= 16 && c.call[4..8] == [0, 0, 0, 0] && c.call[12..15] == [0, 1, 0x86] {
                t.any(w);
            }
            return false;
        }
        _ => return false,
    };
    if call.msg_type != 0 || !rpc::in_portmap_range(call.prog) || call.proc_ > 255 || call.rpcvers > 255 {
        return false; // not what the signature describes
    }
    if call.rpcvers != 2 {
        t.any("rpc-version-other-than-2");
        return false;
    }
    let want_sig = if c.tcp { "RPC:TCP" } else { "RPC:UDP" };
    let d = sig::decide(sigs, c.wire, !c.tcp);
    let mut bad = |rule: &str, key: String, detail: String| {
        v.push(Violation {
            prop: "C16",
            rule: rule.into(),
            key,
            step: c.idx,
            detail,
        });
    };
    match &d {
        _ if c.later => {}
        Decision::Match { sig, .. } if sigs[*sig].name == want_sig => {}
        Decision::Match { .. } | Decision::Ambiguous => {
            t.any("leading-bytes-complete-another-signature");
            return false;
        }
        _ => return false,
    }
    let exp = rpc::expected_reply(&call, &c.dst, c.dport);
    let kind = if call.vers < 2 || call.vers > 4 {
        "prog-mismatch".to_string()
    } else if call.proc_ == 0 {
        "null".to_string()
    } else if call.prog != 100000 {
        "prog-unavail".to_string()
    } else {
        match call.proc_ {
            3 => format!("getport-v{}", call.vers),
            4 => format!("dump-v{}", call.vers),
            _ => "proc-unavail".to_string(),
        }
    };
    t.judged(
        Verdict::Reply,
        format!(
            "{}{}|{}|cred{}|verf{}",
            c.carrier,
            if c.later { "+later" } else { "" },
            kind,
            if call.cred.is_empty() { "0" } else if call.cred.len() % 4 == 0 { "4n" } else { "odd" },
            if call.verf.is_empty() { "0" } else { "n" }
        ),
    );
    let r = match c.reply {
        Some(r) if !r.is_empty() => r,
        _ => {
            // explain by wildcard shadowing if possible (known-finding classes)
            let sidx = sigs.iter().position(|s| s.name == want_sig).unwrap();
            let why = match sig::shadow_explanation(sigs, sidx, c.wire) {
                _ if c.later => "later-call-on-the-connection".to_string(),
                Some((pos, _byte, other)) => format!("shadowed@{}<-{}", pos, other.split(':').next().unwrap_or(other)),
                None => "unexplained".to_string(),
            };
            bad(
                "unanswered",
                format!("unanswered:{}:{}", want_sig, why),
                format!("{} call (prog {}, vers {}, proc {}) over {} was not answered [{}]", kind, call.prog, call.vers, call.proc_, c.carrier, why),
            );
            return true;
        }
    };
    // framing over TCP
    let body: &[u8] = if c.tcp {
        if r.len() < 4 {
            bad("record-mark", "record-mark".into(), "reply shorter than a record mark".into());
            return true;
        }
        let rm = u32::from_be_bytes([r[0], r[1], r[2], r[3]]);
        if rm & 0x8000_0000 == 0 {
            bad("record-mark", "record-mark-last-fragment".into(), "record mark without the last-fragment bit".into());
        }
        if (rm & 0x7fff_ffff) as usize != r.len() - 4 {
            bad("record-mark", "record-mark-length".into(), format!("record mark announces {} bytes, {} follow", rm & 0x7fff_ffff, r.len() - 4));
        }
        &r[4..]
    } else {
        r
    };
    if body.len() % 4 != 0 {
        bad("xdr-alignment", "xdr-alignment".into(), format!("reply body of {} bytes is not 4-byte aligned", body.len()));
    }
    let rp = match rpc::parse_reply(body) {
        Some(rp) => rp,
        None => {
            bad("reply-header", "reply-header".into(), format!("reply of {} bytes is shorter than an accepted-reply header", body.len()));
            return true;
        }
    };
    if rp.xid != call.xid {
        bad("xid", "xid".into(), format!("reply xid {:#x}, call xid {:#x}", rp.xid, call.xid));
    }
    if rp.msg_type != 1 || rp.reply_stat != 0 {
        bad("reply-header", "not-accepted-reply".into(), format!("msg_type {} reply_stat {}", rp.msg_type, rp.reply_stat));
    }
    if rp.verf_flavor != 0 || rp.verf_len != 0 {
        bad("verifier", "verifier".into(), format!("verifier flavor {} length {}", rp.verf_flavor, rp.verf_len));
    }
    match exp {
        Expected::Exact(want) => {
            if body != &want[..] {
                let ws = u32::from_be_bytes([want[20], want[21], want[22], want[23]]);
                bad(
                    "reply-body",
                    format!("reply-body:{}:stat{}", kind.split('-').next().unwrap_or(&kind), rp.accept_stat),
                    format!("{} call: accept_stat {} body {} differs from the expected accept_stat {} body {}", kind, rp.accept_stat, crate::wire::hex(&body[24.min(body.len())..]), ws, crate::wire::hex(&want[24..])),
                );
            }
        }
        Expected::HeaderOnly("getaddr") => {
            if rp.accept_stat != 0 {
                bad("reply-body", format!("reply-body:getport:stat{}", rp.accept_stat), format!("GETADDR answered with accept_stat {}", rp.accept_stat));
            } else if let Err(e) = rpc::check_getaddr(&body[24..], &c.dst, c.dport) {
                bad("reply-body", "reply-body:getport:stat0".into(), e);
            }
        }
        Expected::HeaderOnly(_) => {
            if rp.accept_stat != 0 {
                bad("dump-stat", "dump-stat".into(), format!("DUMP answered with accept_stat {}", rp.accept_stat));
            } else if let Err(e) = rpc::check_dump(&body[24..], call.vers, &c.dst, c.dport) {
                bad("dump-body", "dump-body".into(), e);
            }
        }
    }
    true
}

pub fn check(a: &Analysis, _aux: &mut Aux, t: &mut Tally) -> Vec<Violation> {
    let mut v = Vec::new();
    let sigs = sig::signatures();
    for x in a.udp_exchanges() {
        let c = Case {
            call: x.payload,
            wire: x.payload,
            reply: x.reply,
            tcp: false,
            dst: x.dst,
            dport: x.dport,
            carrier: format!("udp{}", if x.v6 { 6 } else { 4 }),
            idx: a.steps[x.si].idx,
            later: false,
        };
        judge(&c, &sigs, t, &mut v);
    }
    for st in a.tcp_streams() {
        if st.dirty || st.segs.is_empty() {
            continue;
        }
        let s0 = &st.segs[0];
        let p0 = &st.stream[..s0.len];
        if p0.len() < 32 {
            continue;
        }
        // exactly one record (of one or several fragments) in the segment; anything else is
        // C11's domain
        let (body0, nfrag0) = match rpc::defragment(p0) {
            Some(x) => x,
            None => continue,
        };
        if nfrag0 > 1 {
            t.probe("call-in-several-record-fragments");
        }
        let v6 = matches!(st.flow.src, IpAddr::V6(_));
        let c = Case {
            call: &body0,
            wire: p0,
            reply: s0.reply_app.as_deref(),
            tcp: true,
            dst: st.flow.dst,
            dport: st.flow.dport,
            carrier: format!("tcp{}", if v6 { 6 } else { 4 }),
            idx: a.steps[s0.si].idx,
            later: false,
        };
        if !judge(&c, &sigs, t, &mut v) {
            continue;
        }
        // Later records of the connection, found by walking the record marks of the byte stream
        // (whatever the segmentation): every record that is a call the statement speaks about is
        // answered - by a reply record with its xid - in the segment that delivers its last byte.
        // Records that are no calls (replies, garbage) are skipped by their marks, as a stream
        // reader does; the walk ends at the first incomplete record.
        let mut pos = s0.len;
        let mut guard = 0;
        while pos + 4 <= st.stream.len() && guard < 64 {
            guard += 1;
            // one record = fragments up to the one with the last-fragment bit
            let start = pos;
            let mut body: Vec<u8> = Vec::new();
            let mut i = pos;
            let mut complete = false;
            let mut nfrag = 0;
            while i + 4 <= st.stream.len() && nfrag < 64 {
                let m = u32::from_be_bytes([st.stream[i], st.stream[i + 1], st.stream[i + 2], st.stream[i + 3]]);
                let l = (m & 0x7fff_ffff) as usize;
                if i + 4 + l > st.stream.len() {
                    break;
                }
                body.extend_from_slice(&st.stream[i + 4..i + 4 + l]);
                i += 4 + l;
                nfrag += 1;
                if m & 0x8000_0000 != 0 {
                    complete = true;
                    break;
                }
            }
            if !complete {
                break;
            }
            let end = i;
            pos = end;
            // the segment that delivers the record's last byte
            let sg = match st.segs.iter().find(|x| x.off < end && end <= x.off + x.len) {
                Some(x) => x,
                None => break,
            };
            if body.len() < 8 || body[4..8] != [0, 0, 0, 0] {
                t.probe("non-call-record-skipped-on-an-rpc-connection");
                continue;
            }
            if nfrag > 1 {
                t.probe("call-in-several-record-fragments");
            }
            // the reply record for this call among the records of that segment's payload
            let xid = &body[..4];
            let mut found: Option<Vec<u8>> = None;
            if let Some(r) = sg.reply_app.as_deref() {
                let mut j = 0usize;
                while j + 8 <= r.len() {
                    let l = (u32::from_be_bytes([r[j] & 0x7f, r[j + 1], r[j + 2], r[j + 3]])) as usize;
                    if j + 4 + l > r.len() {
                        break;
                    }
                    if &r[j + 4..j + 8] == xid {
                        found = Some(r[j..j + 4 + l].to_vec());
                        break;
                    }
                    j += 4 + l;
                }
                if found.is_none() && !r.is_empty() && sg.off <= start {
                    // a payload that does not split into records: judge it as it is
                    found = Some(r.to_vec());
                }
            }
            let c = Case {
                call: &body,
                wire: &st.stream[start..end],
                reply: found.as_deref(),
                tcp: true,
                dst: st.flow.dst,
                dport: st.flow.dport,
                carrier: format!("tcp{}", if v6 { 6 } else { 4 }),
                idx: a.steps[sg.si].idx,
                later: true,
            };
            t.probe("later-call-on-an-rpc-connection");
            judge(&c, &sigs, t, &mut v);
        }
    }
    v
}
