//! C19 - any port, either IP version: answers do not depend on where they were asked.
//!
//! History-based: application exchanges of one run that carry identical payload bytes (UDP) or
//! identical streams in identical composition (TCP) are compared after masking the fields the
//! statement exempts (endpoint-bearing fields, wall-clock timestamps).

use std::collections::BTreeMap;

use crate::apps::sig::identify_reply;
use crate::apps::{dns, http, stun, App};
use crate::model::Analysis;
use crate::oracle::{Aux, Tally, Verdict, Violation};

/// Normal form of an application reply with the exempt fields masked.
fn normalise(r: &[u8]) -> (String, Vec<u8>) {
    match identify_reply(r) {
        Some(App::Http) => ("http".into(), http::mask_date(r)),
        Some(App::Stun) => {
            let mut out = Vec::new();
            if let Some(m) = stun::parse(r) {
                out.extend_from_slice(&m.ty.to_be_bytes());
                out.extend_from_slice(&m.id);
                for (t, v) in &m.attrs {
                    out.extend_from_slice(&t.to_be_bytes());
                    if *t != 1 {
                        out.extend_from_slice(v);
                    }
                }
            }
            ("stun".into(), out)
        }
        Some(App::Rpc) => {
            // record mark length, addresses / ports / netids and their XDR lengths are exempt:
            // keep the reply header and the accept state
            let b = if r.len() >= 28 && r[0] & 0x80 != 0 && r[8..12] == [0, 0, 0, 1] { &r[4..] } else { r };
            let mut out = b[..b.len().min(24)].to_vec();
            let stat = if b.len() >= 24 { u32::from_be_bytes([b[20], b[21], b[22], b[23]]) } else { 99 };
            if stat != 0 {
                out.extend_from_slice(&b[24.min(b.len())..]);
            } else {
                out.extend_from_slice(&mask_portmap_body(&b[24.min(b.len())..]));
            }
            ("rpc".into(), out)
        }
        Some(App::Dns) => {
            let mut out = Vec::new();
            match dns::decode(r) {
                Ok(m) => {
                    out.extend_from_slice(&r[..12]);
                    for q in &m.questions {
                        out.extend_from_slice(&q.raw);
                    }
                    for an in &m.answers {
                        out.extend_from_slice(&an.name);
                        out.extend_from_slice(&an.rtype.to_be_bytes());
                        out.extend_from_slice(&an.rclass.to_be_bytes());
                        out.extend_from_slice(&an.ttl.to_be_bytes());
                    }
                }
                Err(_) => out.extend_from_slice(r),
            }
            ("dns".into(), out)
        }
        Some(a @ App::Smb1) | Some(a @ App::Smb2) => {
            // every NetBIOS message of the payload (a segment holding several requests may be
            // answered with several responses): the wall-clock fields of negotiate responses
            let mut o = r.to_vec();
            let mut at = 0;
            while at + 8 <= o.len() && o[at] == 0 {
                let n = ((o[at + 1] as usize & 1) << 16) | ((o[at + 2] as usize) << 8) | o[at + 3] as usize;
                let end = (at + 4 + n).min(o.len());
                let m = &mut o[at..end];
                if m.len() >= 68 && &m[4..8] == b"\xffSMB" && m[8] == 0x72 {
                    // SMB1 negotiate response: SystemTime
                    for b in m[60..68].iter_mut() {
                        *b = 0;
                    }
                }
                if m.len() >= 124 && &m[4..8] == b"\xfeSMB" && m[16] == 0 && m[17] == 0 {
                    // SMB2 negotiate response: SystemTime, ServerStartTime
                    for b in m[108..124].iter_mut() {
                        *b = 0;
                    }
                }
                if end <= at {
                    break;
                }
                at = end;
            }
            (if a == App::Smb1 { "smb1" } else { "smb2" }.into(), o)
        }
        Some(App::Ssh) => ("ssh".into(), r.to_vec()),
        Some(App::Ghost) => ("ghost".into(), r.to_vec()),
        _ => ("other".into(), r.to_vec()),
    }
}

fn describe(r: &Option<Vec<u8>>) -> String {
    match r {
        None => "no reply".into(),
        Some(x) if x.is_empty() => "bare ACK".into(),
        Some(x) => format!("{} reply of {} bytes", normalise(x).0, x.len()),
    }
}

pub fn check(a: &Analysis, _aux: &mut Aux, t: &mut Tally) -> Vec<Violation> {
    let mut v = Vec::new();
    // ---- datagrams with identical payload
    let ux = a.udp_exchanges();
    let mut groups: BTreeMap<&[u8], Vec<usize>> = BTreeMap::new();
    for (k, x) in ux.iter().enumerate() {
        if !x.payload.is_empty() {
            groups.entry(x.payload).or_default().push(k);
        }
    }
    for (_, g) in groups {
        let base = &ux[g[0]];
        for k in g.iter().skip(1) {
            let o = &ux[*k];
            if (o.sport, o.dport, o.v6) == (base.sport, base.dport, base.v6) {
                continue; // a duplicate of the same datagram, not a pair
            }
            let what = format!(
                "{}{}",
                if o.v6 != base.v6 { "ipversion" } else { "" },
                if (o.sport, o.dport) != (base.sport, base.dport) { "+ports" } else { "" }
            );
            let (rb, ro) = (base.reply.map(|x| x.to_vec()), o.reply.map(|x| x.to_vec()));
            let fam = rb.as_ref().map(|x| normalise(x).0).unwrap_or("silence".into());
            t.judged(if rb.is_some() { Verdict::Reply } else { Verdict::Silent }, format!("udp|{}|{}", fam, what));
            if [base.sport, base.dport, o.sport, o.dport].iter().any(|p| *p == 0 || *p == 65535) {
                t.probe("pair-with-port-0-or-65535");
            }
            let same = match (&rb, &ro) {
                (None, None) => true,
                (Some(x), Some(y)) => normalise(x) == normalise(y),
                _ => false,
            };
            if !same {
                v.push(Violation {
                    prop: "C19",
                    rule: "udp-pair".into(),
                    key: format!("udp-answer-depends-on:{}:{}", what, fam),
                    step: a.steps[o.si].idx,
                    detail: format!(
                        "the same {}-byte payload got {} at {}:{}->{}:{} but {} at {}:{}->{}:{}",
                        base.payload.len(), describe(&rb), base.src, base.sport, base.dst, base.dport,
                        describe(&ro), o.src, o.sport, o.dst, o.dport
                    ),
                });
            }
        }
    }
    // ---- streams with identical bytes and identical composition
    let streams = a.tcp_streams();
    let mut sg: BTreeMap<(Vec<u8>, Vec<usize>), Vec<usize>> = BTreeMap::new();
    for (k, st) in streams.iter().enumerate() {
        if st.dirty || st.stream.is_empty() {
            continue;
        }
        let comp: Vec<usize> = st.segs.iter().map(|s| s.len).collect();
        sg.entry((st.stream.clone(), comp)).or_default().push(k);
    }
    for (_, g) in sg {
        let base = &streams[g[0]];
        for k in g.iter().skip(1) {
            let o = &streams[*k];
            let bv6 = matches!(base.flow.src, std::net::IpAddr::V6(_));
            let ov6 = matches!(o.flow.src, std::net::IpAddr::V6(_));
            let what = format!(
                "{}{}",
                if ov6 != bv6 { "ipversion" } else { "" },
                if (o.flow.sport, o.flow.dport) != (base.flow.sport, base.flow.dport) { "+ports" } else { "" }
            );
            if what.is_empty() {
                continue;
            }
            let fam = base
                .segs
                .iter()
                .filter_map(|s| s.reply_app.as_ref())
                .find(|r| !r.is_empty())
                .map(|r| normalise(r).0)
                .unwrap_or("silence".into());
            t.judged(if fam == "silence" { Verdict::Silent } else { Verdict::Reply }, format!("tcp|{}|{}|segs{}", fam, what, base.segs.len().min(4)));
            for (i, (sb, so)) in base.segs.iter().zip(o.segs.iter()).enumerate() {
                let same = match (&sb.reply_app, &so.reply_app) {
                    (None, None) => true,
                    (Some(x), Some(y)) => normalise(x) == normalise(y),
                    _ => false,
                };
                if !same {
                    v.push(Violation {
                        prop: "C19",
                        rule: "tcp-pair".into(),
                        key: format!("tcp-answer-depends-on:{}:{}", what, fam),
                        step: a.steps[so.si].idx,
                        detail: format!(
                            "segment {} of the same stream in the same composition got {} on {}:{}->{}:{} but {} on {}:{}->{}:{}",
                            i, describe(&sb.reply_app), base.flow.src, base.flow.sport, base.flow.dst, base.flow.dport,
                            describe(&so.reply_app), o.flow.src, o.flow.sport, o.flow.dst, o.flow.dport
                        ),
                    });
                    break;
                }
            }
        }
    }
    v
}

/// Structure of a successful portmapper result with the exempt fields (port numbers, universal
/// addresses, netids - and the XDR length words that go with them) masked. Anything that does
/// not parse as one of the known result shapes is kept verbatim.
fn mask_portmap_body(b: &[u8]) -> Vec<u8> {
    let w = |i: usize| -> Option<u32> {
        if i + 4 <= b.len() {
            Some(u32::from_be_bytes([b[i], b[i + 1], b[i + 2], b[i + 3]]))
        } else {
            None
        }
    };
    // XDR string at i: returns the index after it (content and padding must fit; padding must be zero)
    let xstr = |i: usize| -> Option<usize> {
        let l = w(i)? as usize;
        let pad = (4 - l % 4) % 4;
        let end = i + 4 + l + pad;
        if end > b.len() || b[i + 4 + l..end].iter().any(|x| *x != 0) {
            return None;
        }
        Some(end)
    };
    if b.is_empty() {
        return b"<void>".to_vec();
    }
    if b.len() == 4 {
        return b"<port>".to_vec();
    }
    if xstr(0) == Some(b.len()) {
        return b"<uaddr>".to_vec();
    }
    // list of mappings (v2) or rpcb entries (v3/v4)
    for v2 in [true, false] {
        let mut i = 0;
        let mut out = Vec::new();
        let mut ok = true;
        loop {
            match w(i) {
                Some(0) => {
                    i += 4;
                    break;
                }
                Some(1) => {}
                _ => {
                    ok = false;
                    break;
                }
            }
            let (prog, vers) = match (w(i + 4), w(i + 8)) {
                (Some(p), Some(v)) => (p, v),
                _ => {
                    ok = false;
                    break;
                }
            };
            out.extend_from_slice(&prog.to_be_bytes());
            out.extend_from_slice(&vers.to_be_bytes());
            i += 12;
            if v2 {
                match w(i) {
                    Some(prot) => out.extend_from_slice(&prot.to_be_bytes()),
                    None => {
                        ok = false;
                        break;
                    }
                }
                if w(i + 4).is_none() {
                    ok = false;
                    break;
                }
                out.extend_from_slice(b"<port>");
                i += 8;
            } else {
                // netid, universal address (both exempt), owner (kept)
                let a = match xstr(i) {
                    Some(a) => a,
                    None => {
                        ok = false;
                        break;
                    }
                };
                let c = match xstr(a) {
                    Some(c) => c,
                    None => {
                        ok = false;
                        break;
                    }
                };
                let e = match xstr(c) {
                    Some(e) => e,
                    None => {
                        ok = false;
                        break;
                    }
                };
                out.extend_from_slice(b"<netid><uaddr>");
                out.extend_from_slice(&b[c..e]);
                i = e;
            }
        }
        if ok && i == b.len() {
            return out;
        }
    }
    b.to_vec()
}
