//! Oracles: one per property. Each is a function of a recorded history (the
//! configuration, the delivered schedule and the node's observable outputs)
//! and nothing else, so that a violation found during a simulated run can be
//! re-judged identically when its schedule is replayed or shrunk.

use std::collections::BTreeMap;

use crate::exec::{Executor, History};
use crate::model::Analysis;

pub mod c01;
pub mod c02;
pub mod c03;
pub mod c04;
pub mod c05;
pub mod c06;
pub mod c07;
pub mod c08;
pub mod c09;
pub mod c10;
pub mod c11;
pub mod c12;
pub mod c13;
pub mod c14;
pub mod c15;
pub mod c16;
pub mod c17;
pub mod c18;
pub mod c19;
pub mod c20;

#[derive(Clone, Debug)]
pub struct Violation {
    pub prop: &'static str,
    /// which rule of the property's oracle fired
    pub rule: String,
    /// canonical identity of the failure (rule + minimal distinguishing
    /// facts); matched against known_findings.json
    pub key: String,
    /// record index in the history
    pub step: usize,
    pub detail: String,
}

#[derive(Clone, Copy, Debug, PartialEq, Eq)]
pub enum Verdict {
    Silent,
    Reply,
    Any,
}

/// What an oracle evaluated in one run (feeds the evidence file).
#[derive(Clone, Debug, Default)]
pub struct Tally {
    pub evals: u64,
    pub silent: u64,
    pub reply: u64,
    pub any: u64,
    /// behaviour signatures on which a definite judgement was made
    pub sigs: BTreeMap<String, u64>,
    /// reasons for don't-care outcomes
    pub any_why: BTreeMap<String, u64>,
    /// rare-condition probes that were hit
    pub probes: BTreeMap<String, u64>,
}

impl Tally {
    pub fn judged(&mut self, v: Verdict, sig: String) {
        self.evals += 1;
        match v {
            Verdict::Silent => self.silent += 1,
            Verdict::Reply => self.reply += 1,
            Verdict::Any => self.any += 1,
        }
        *self.sigs.entry(sig).or_insert(0) += 1;
    }
    pub fn any(&mut self, why: &str) {
        self.evals += 1;
        self.any += 1;
        *self.any_why.entry(why.to_string()).or_insert(0) += 1;
    }
    pub fn probe(&mut self, name: &str) {
        *self.probes.entry(name.to_string()).or_insert(0) += 1;
    }
    pub fn merge(&mut self, o: &Tally) {
        self.evals += o.evals;
        self.silent += o.silent;
        self.reply += o.reply;
        self.any += o.any;
        for (k, v) in &o.sigs {
            *self.sigs.entry(k.clone()).or_insert(0) += v;
        }
        for (k, v) in &o.any_why {
            *self.any_why.entry(k.clone()).or_insert(0) += v;
        }
        for (k, v) in &o.probes {
            *self.probes.entry(k.clone()).or_insert(0) += v;
        }
    }
}

/// Auxiliary executions an oracle may ask for (restriction replay, key
/// sensitivity, matcher probes). They run on a second node, never on the one
/// whose history is being judged.
pub struct Aux<'a, 'b> {
    pub exec: &'a mut Executor<'b>,
    pub nonce: String,
    pub harness_error: Option<String>,
    /// budget knob: how many auxiliary executions per run
    pub samples: usize,
    /// deterministic selector for sampling inside oracles (derived from the run seed)
    pub pick: u64,
}

pub const ALL: [&str; 20] = [
    "C01", "C02", "C03", "C04", "C05", "C06", "C07", "C08", "C09", "C10", "C11", "C12", "C13", "C14", "C15", "C16",
    "C17", "C18", "C19", "C20",
];

pub fn check(prop: &str, a: &Analysis, aux: &mut Aux, t: &mut Tally) -> Vec<Violation> {
    match prop {
        "C01" => c01::check(a, aux, t),
        "C02" => c02::check(a, aux, t),
        "C03" => c03::check(a, aux, t),
        "C04" => c04::check(a, aux, t),
        "C05" => c05::check(a, aux, t),
        "C06" => c06::check(a, aux, t),
        "C07" => c07::check(a, aux, t),
        "C08" => c08::check(a, aux, t),
        "C09" => c09::check(a, aux, t),
        "C10" => c10::check(a, aux, t),
        "C11" => c11::check(a, aux, t),
        "C12" => c12::check(a, aux, t),
        "C13" => c13::check(a, aux, t),
        "C14" => c14::check(a, aux, t),
        "C15" => c15::check(a, aux, t),
        "C16" => c16::check(a, aux, t),
        "C17" => c17::check(a, aux, t),
        "C18" => c18::check(a, aux, t),
        "C19" => c19::check(a, aux, t),
        "C20" => c20::check(a, aux, t),
        _ => Vec::new(),
    }
}

pub fn judge(prop: &str, h: &History, aux: &mut Aux, t: &mut Tally) -> Vec<Violation> {
    let a = Analysis::new(h);
    check(prop, &a, aux, t)
}

pub fn flags_str(f: u16) -> String {
    let names = [
        (0x100, "N"),
        (0x080, "C"),
        (0x040, "E"),
        (0x020, "U"),
        (0x010, "A"),
        (0x008, "P"),
        (0x004, "R"),
        (0x002, "S"),
        (0x001, "F"),
    ];
    let mut s = String::new();
    for (b, n) in names {
        if f & b != 0 {
            s.push_str(n);
        }
    }
    if s.is_empty() {
        s.push('-');
    }
    s
}

/// Coarse size class used in behaviour signatures.
pub fn size_class(n: usize) -> &'static str {
    match n {
        0 => "0",
        1 => "1",
        2..=15 => "s",
        16..=255 => "m",
        256..=1472 => "l",
        _ => "xl",
    }
}

/// Build a TCP frame on `flow` (client -> responder) for auxiliary executions.
pub fn mk_tcp(
    flow: &crate::wire::FlowKey,
    smac: &crate::wire::Mac,
    dmac: &crate::wire::Mac,
    seq: u32,
    ack: u32,
    flags: u16,
    payload: &[u8],
) -> Vec<u8> {
    use crate::wire::*;
    let f = TcpFields {
        sport: flow.sport,
        dport: flow.dport,
        seq,
        ack,
        flags,
        window: 8192,
        urg: 0,
        options: Vec::new(),
    };
    let seg = tcp(&f, payload, &flow.src, &flow.dst);
    frame_ip(dmac, smac, &flow.src, &flow.dst, P_TCP, &seg, 64)
}

/// Deliver `stream` on a fresh copy of `flow` cut at `cuts` (ascending stream offsets) on the
/// auxiliary node; returns per segment (end offset, application bytes of the reply or None).
pub fn aux_stream(
    aux: &mut Aux,
    cfg: &crate::node::Config,
    clock: u64,
    flow: &crate::wire::FlowKey,
    smac: &crate::wire::Mac,
    dmac: &crate::wire::Mac,
    cookie: u32,
    stream: &[u8],
    cuts: &[usize],
) -> Option<Vec<(usize, Option<Vec<u8>>)>> {
    use crate::exec::Step;
    use crate::wire::*;
    let mut steps = vec![Step::Clock(clock)];
    let isn = 0x0100_0000u32;
    let mut prev = 0usize;
    let mut ends = Vec::new();
    for c in cuts.iter().copied().chain(std::iter::once(stream.len())) {
        if c <= prev || c > stream.len() {
            continue;
        }
        steps.push(Step::Frame(mk_tcp(
            flow,
            smac,
            dmac,
            isn.wrapping_add(1 + prev as u32),
            cookie.wrapping_add(1),
            F_PSH | F_ACK,
            &stream[prev..c],
        )));
        ends.push(c);
        prev = c;
    }
    let h = match aux.exec.run(cfg, clock, &aux.nonce, &steps) {
        Ok(h) => h,
        Err(e) => {
            aux.harness_error = Some(format!("{:?}", e));
            return None;
        }
    };
    if h.death.is_some() {
        return None;
    }
    let mut out = Vec::new();
    let mut k = 0;
    for r in &h.recs {
        if let (Step::Frame(_), Some(o)) = (&r.step, &r.obs) {
            let app = o.reply.as_ref().and_then(|raw| {
                let p = parse(raw);
                p.tcp().map(|t| raw[t.pay_off..t.pay_off + t.pay_len].to_vec())
            });
            out.push((ends[k], app));
            k += 1;
        }
    }
    Some(out)
}
