//! C06 - SYN policy mimics Linux; SYN-ACK acks seq+1 with a deterministic cookie.
//!
//! The cookie is treated as an uninterpreted function learned from observed
//! SYN-ACKs: the oracle never recomputes SipHash, so a different but equally
//! good hash passes. Key sensitivity is decided with an auxiliary execution
//! under a key that differs in one bit.

use std::collections::BTreeMap;

use crate::exec::Step;
use crate::model::{is_synack, tcp_class, Analysis, TcpClass};
use crate::oracle::{flags_str, Aux, Tally, Verdict, Violation};
use crate::wire::*;

pub fn check(a: &Analysis, aux: &mut Aux, t: &mut Tally) -> Vec<Violation> {
    let mut v = Vec::new();
    // (1) the iff, on every TCP segment with a clean carrier
    let mut syn_steps: Vec<usize> = Vec::new();
    for (si, s) in a.steps.iter().enumerate() {
        let th = match s.req.tcp() {
            Some(th) if s.carrier.clean() => th,
            _ => continue,
        };
        let class = tcp_class(th.flags);
        let info = s.tcp.as_ref();
        let hist_state = match info {
            Some(i) => {
                if a.steps[..si].iter().any(|p| {
                    p.epoch == s.epoch && p.tcp.as_ref().map(|x| x.flow == i.flow).unwrap_or(false) && p.validates
                }) {
                    "validated"
                } else if a.steps[..si]
                    .iter()
                    .any(|p| p.tcp.as_ref().map(|x| x.flow == i.flow).unwrap_or(false))
                {
                    "seen"
                } else {
                    "fresh"
                }
            }
            None => "fresh",
        };
        let synack = s.reply.as_ref().map(is_synack).unwrap_or(false);
        if class == TcpClass::Syn {
            t.judged(
                Verdict::Reply,
                format!("syn|{}|pay{}|{}|ep{}", flags_str(th.flags), (th.pay_len > 0) as u8, hist_state, s.epoch.min(2)),
            );
            syn_steps.push(si);
            if th.seq == 0xffff_ffff {
                t.probe("syn-seq-ffffffff");
            }
            if th.pay_len > 0 {
                t.probe("syn-with-payload");
            }
            let key = format!("syn:{}", flags_str(th.flags));
            match s.reply.as_ref().and_then(|r| r.tcp()) {
                Some(r) if synack => {
                    if r.ack != th.seq.wrapping_add(1) {
                        v.push(Violation {
                            prop: "C06",
                            rule: "synack-ack".into(),
                            key: format!("synack-ack:pay{}", (th.pay_len > 0) as u8),
                            step: s.idx,
                            detail: format!("SYN seq {:#x} (payload {} bytes) acknowledged with {:#x}, expected seq+1", th.seq, th.pay_len, r.ack),
                        });
                    }
                    if r.seg_len != (r.doff as usize * 4).max(20) {
                        v.push(Violation {
                            prop: "C06",
                            rule: "synack-payload".into(),
                            key: "synack-payload".into(),
                            step: s.idx,
                            detail: format!("SYN-ACK TCP segment has {} bytes with data offset {}: it carries payload", r.seg_len, r.doff),
                        });
                    }
                }
                _ => v.push(Violation {
                    prop: "C06",
                    rule: "syn-policy".into(),
                    key: format!("not-synack:{}", key),
                    step: s.idx,
                    detail: format!(
                        "segment with flags {} must be answered with exactly SYN|ACK, got {}",
                        flags_str(th.flags),
                        match s.reply.as_ref().and_then(|r| r.tcp()) {
                            Some(r) => flags_str(r.flags),
                            None => "nothing".into(),
                        }
                    ),
                }),
            }
        } else {
            t.judged(
                Verdict::Silent,
                format!("nosyn|{}|{:?}", flags_str(th.flags), class),
            );
            if synack {
                v.push(Violation {
                    prop: "C06",
                    rule: "syn-policy".into(),
                    key: format!("synack-to:{}", flags_str(th.flags)),
                    step: s.idx,
                    detail: format!("segment with flags {} was answered with SYN|ACK", flags_str(th.flags)),
                });
            }
        }
    }
    // (2) cookie is a function of the 4-tuple only (whatever the history, clock, seq, flags, payload, MACs, epoch)
    for (fk, c1, c2, idx) in &a.cookie_conflicts {
        v.push(Violation {
            prop: "C06",
            rule: "cookie-function".into(),
            key: "cookie-not-a-function-of-the-tuple".into(),
            step: *idx,
            detail: format!("flow {:?} got SYN-ACK sequence numbers {:#x} and {:#x} in the same run", fk, c1, c2),
        });
    }
    let multi = {
        let mut n: BTreeMap<&FlowKey, u32> = BTreeMap::new();
        for si in &syn_steps {
            if let Some(i) = &a.steps[*si].tcp {
                *n.entry(&i.flow).or_insert(0) += 1;
            }
        }
        n.values().filter(|c| **c >= 2).count()
    };
    for _ in 0..multi {
        t.probe("same-flow-syn-repeated");
    }
    // (3) the cookie changes when exactly one input changes (2^-32 chance otherwise):
    // a run is flagged when two or more such pairs collide
    let flows: Vec<(&FlowKey, &u32)> = a.cookies.iter().collect();
    let mut pairs = 0u64;
    let mut coll: Vec<(String, &FlowKey, &FlowKey)> = Vec::new();
    for i in 0..flows.len() {
        for j in i + 1..flows.len() {
            let (x, y) = (flows[i].0, flows[j].0);
            let d = [x.src != y.src, x.dst != y.dst, x.sport != y.sport, x.dport != y.dport];
            if d.iter().filter(|b| **b).count() == 1 {
                pairs += 1;
                if flows[i].1 == flows[j].1 {
                    let which = ["src-ip", "dst-ip", "src-port", "dst-port"][d.iter().position(|b| *b).unwrap()];
                    coll.push((which.to_string(), x, y));
                }
            }
        }
    }
    if pairs > 0 {
        t.judged(Verdict::Reply, format!("cookie-pairs|{}", if pairs > 8 { "many" } else { "few" }));
        for _ in 0..pairs.min(64) {
            t.probe("one-component-pairs");
        }
    }
    if coll.len() >= 2 {
        v.push(Violation {
            prop: "C06",
            rule: "cookie-sensitivity".into(),
            key: format!("cookie-ignores:{}", coll[0].0),
            step: 0,
            detail: format!(
                "{} of {} flow pairs differing in exactly one component share a cookie, e.g. {:?} / {:?} ({})",
                coll.len(), pairs, coll[0].1, coll[0].2, coll[0].0
            ),
        });
    }
    // (4) key sensitivity: same SYNs under a key differing in one bit
    if v.is_empty() && !syn_steps.is_empty() && aux.samples > 0 {
        let mut cfg2 = a.hist.config.clone();
        let bit = aux.pick % 128;
        cfg2.key[(bit / 64) as usize] ^= 1u64 << (bit % 64);
        let mut steps = Vec::new();
        let mut flows_done = Vec::new();
        for si in &syn_steps {
            let s = &a.steps[*si];
            if let Some(i) = &s.tcp {
                if a.cookies.contains_key(&i.flow) && !flows_done.contains(&i.flow) {
                    flows_done.push(i.flow.clone());
                    steps.push(Step::Frame(s.raw.clone()));
                    if steps.len() >= 16 {
                        break;
                    }
                }
            }
        }
        if steps.len() >= 2 {
            match aux.exec.run(&cfg2, a.hist.start_ms, &aux.nonce, &steps) {
                Ok(h2) => {
                    let mut same = 0;
                    let mut n = 0;
                    for (k, r) in h2.recs.iter().enumerate() {
                        if let Some(o) = &r.obs {
                            if let Some(rep) = o.reply.as_ref().map(|x| parse(x)) {
                                if let Some(rt) = rep.tcp() {
                                    n += 1;
                                    if Some(&rt.seq) == a.cookies.get(&flows_done[k]) {
                                        same += 1;
                                    }
                                }
                            }
                        }
                    }
                    t.judged(Verdict::Reply, format!("key-bit|word{}", bit / 64));
                    if n >= 2 && same >= 2 {
                        v.push(Violation {
                            prop: "C06",
                            rule: "cookie-key".into(),
                            key: format!("cookie-ignores-key-word{}", bit / 64),
                            step: a.steps[syn_steps[0]].idx,
                            detail: format!("{} of {} cookies are unchanged after flipping bit {} of the key", same, n, bit),
                        });
                    }
                }
                Err(e) => aux.harness_error = Some(format!("{:?}", e)),
            }
        }
    }
    v
}
