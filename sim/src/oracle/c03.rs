//! C03 - replies go back to the asker, from the identity that was asked.

use crate::apps::stun;
use crate::model::Analysis;
use crate::oracle::c01::layer_path;
use crate::oracle::{Aux, Tally, Verdict, Violation};
use crate::wire::*;

pub fn check(a: &Analysis, _aux: &mut Aux, t: &mut Tally) -> Vec<Violation> {
    let mut v = Vec::new();
    let cfg = &a.hist.config;
    // Over TCP a STUN request may be spread over several segments (the responder reassembles the
    // bytes received before the protocol was identified): the change-port exception is judged
    // on the stream up to and including the segment, not on the segment alone.
    let mut stream_cp: std::collections::BTreeMap<usize, (usize, usize)> = std::collections::BTreeMap::new();
    let mut stream_malformed_cr: std::collections::BTreeSet<usize> = std::collections::BTreeSet::new();
    for st in a.tcp_streams() {
        for sg in &st.segs {
            let prefix = &st.stream[..sg.off + sg.len];
            if malformed_with_change_request(prefix) {
                stream_malformed_cr.insert(a.steps[sg.si].idx);
            }
            if let Some(m) = stun::parse(prefix) {
                if m.is_binding_request() && m.tiles {
                    stream_cp.insert(a.steps[sg.si].idx, (m.change_port_count(), m.odd_change_requests()));
                }
            }
        }
    }
    for s in &a.steps {
        let (rep, rraw) = match (&s.reply, &s.reply_raw) {
            (Some(r), Some(raw)) => (r, raw),
            _ => continue,
        };
        let mut bad = |rule: &str, detail: String| {
            v.push(Violation {
                prop: "C03",
                rule: rule.to_string(),
                key: format!("{}:{}", rule, layer_path(&s.req)),
                step: s.idx,
                detail,
            });
        };
        let (qe, re) = match (&s.req.eth, &rep.eth) {
            (Some(q), Some(r)) => (q, r),
            _ => {
                bad("eth", "reply without an Ethernet header".into());
                continue;
            }
        };
        let dkind = if qe.dst == cfg.mac {
            "own"
        } else if qe.dst == BROADCAST {
            "bcast"
        } else {
            "mcast"
        };
        let rk = match &rep.l4 {
            L4::Tcp(t) => format!("tcp:{}:{}", crate::oracle::flags_str(t.flags), if t.pay_len > 0 { "data" } else { "bare" }),
            L4::Udp(u) => format!("udp:{}", crate::apps::sig::identify_reply(&rraw[u.pay_off..u.pay_off + u.pay_len]).map(|a| format!("{:?}", a)).unwrap_or("?".into())),
            L4::Icmp4(i) | L4::Icmp6(i) => format!("icmp:{}", i.ty),
            _ => "l2".into(),
        };
        let mut sig = format!("{}|{}|{}|ep{}", layer_path(&s.req), dkind, rk, s.epoch.min(1));
        if re.src != cfg.mac {
            bad("eth-src", format!("reply Ethernet source {} is not the configured MAC", mac_str(&re.src)));
        }
        if re.dst != qe.src {
            bad("eth-dst", format!("reply Ethernet destination {} is not the request's source {}", mac_str(&re.dst), mac_str(&qe.src)));
        }
        if re.etype != qe.etype {
            bad("ethertype", format!("reply EtherType {:04x} differs from request's {:04x}", re.etype, qe.etype));
        }
        match (&s.req.l3, &rep.l3) {
            (L3::Arp(_), L3::Arp(_)) => {}
            (L3::V4(q), L3::V4(r)) => {
                if r.src != q.dst {
                    bad("ip-src", format!("reply source {} is not the request's destination {}", r.src, q.dst));
                }
                if r.dst != q.src {
                    bad("ip-dst", format!("reply destination {} is not the request's source {}", r.dst, q.src));
                }
                if r.proto != q.proto {
                    bad("transport", format!("reply protocol {} differs from request's {}", r.proto, q.proto));
                }
            }
            (L3::V6(q), L3::V6(r)) => {
                // neighbour discovery: the advertisement is sourced from the solicited target
                let mut want_src = q.dst;
                if let (L4::Icmp6(qi), L4::Icmp6(ri)) = (&s.req.l4, &rep.l4) {
                    if qi.ty == 135 && ri.ty == 136 && qi.rest_len >= 20 {
                        let mut tg = [0u8; 16];
                        tg.copy_from_slice(&s.raw[qi.rest_off + 4..qi.rest_off + 20]);
                        want_src = tg.into();
                        sig.push_str("|nd");
                    }
                }
                if r.src != want_src {
                    bad("ip-src", format!("reply source {} is not the identity asked {}", r.src, want_src));
                }
                if r.dst != q.src {
                    bad("ip-dst", format!("reply destination {} is not the request's source {}", r.dst, q.src));
                }
                if r.nh != q.nh {
                    bad("transport", format!("reply next header {} differs from request's {}", r.nh, q.nh));
                }
            }
            _ => bad("l3-kind", "reply is of another network protocol than the request".into()),
        }
        // ports
        if let (Some((qs, qd)), Some((rs, rd))) = (s.req.ports(), rep.ports()) {
            let same_l4 = matches!(
                (&s.req.l4, &rep.l4),
                (L4::Tcp(_), L4::Tcp(_)) | (L4::Udp(_), L4::Udp(_))
            );
            if !same_l4 {
                bad("transport", "reply transport differs from request's".into());
            }
            if rd != qs {
                bad("dst-port", format!("reply destination port {} is not the request's source port {}", rd, qs));
            }
            // STUN change-port exception
            let app = s.req.app(&s.raw).unwrap_or(&[]);
            let stun_cp = stun::parse(app)
                .filter(|m| m.is_binding_request() && m.tiles)
                .map(|m| (m.change_port_count(), m.odd_change_requests()))
                .or_else(|| stream_cp.get(&s.idx).copied())
                .unwrap_or((0, 0));
            let is_stun_reply = rep
                .app(rraw)
                .and_then(stun::parse)
                .map(|m| m.ty == 0x0101)
                .unwrap_or(false);
            if stun_cp.0 >= 1 && is_stun_reply && stun_cp.1 == 0 {
                sig.push_str("|stun-change-port");
                let k = stun_cp.0 as u16;
                if k == 1 {
                    if rs != qd.wrapping_add(1) {
                        bad("src-port-change", format!("STUN change-port answered from port {} instead of {}", rs, qd.wrapping_add(1)));
                    }
                    if qd == 65535 {
                        t.probe("change-port-wraps-65535");
                    }
                } else {
                    // several change-port requests: anything from +1 to +k is a defensible reading
                    let d = rs.wrapping_sub(qd);
                    if d == 0 || d > k {
                        bad("src-port-change", format!("STUN change-port x{} answered from port {} (request to {})", k, rs, qd));
                    }
                }
            } else if rs != qd && {
                // a change-port request followed by trailing bytes (length field shorter than the
                // payload): malformed, the statement does not say whether the exception applies
                let l = if app.len() >= 20 { 20 + (((app[2] as usize) << 8) | app[3] as usize) } else { usize::MAX };
                l < app.len()
                    && stun::parse(&app[..l])
                        .map(|m| m.is_binding_request() && m.tiles && m.change_port_count() >= 1 && rs.wrapping_sub(qd) as usize <= m.change_port_count())
                        .unwrap_or(false)
            } {
                t.any("stun-change-port-request-with-trailing-bytes");
            } else if rs != qd
                && s.tcp.as_ref().map(|ti| matches!(ti.data, Some(crate::model::DataVerdict::Unknown) | Some(crate::model::DataVerdict::Collision) | Some(crate::model::DataVerdict::CollisionValidated)) || a.dirty_flows.contains(&ti.flow)).unwrap_or(false)
            {
                // the flow's earlier bytes are not known to the model (cookie never observed in this
                // history): whether a STUN change-port request was completed here cannot be told
                t.any("stream-of-flow-unknown");
            } else if rs != qd && is_stun_reply && s.tcp.is_none() && s.req.tcp().is_some() && !s.carrier.clean() {
                // a data segment over an odd carrier (the model does not follow such flows): the
                // bytes the responder had received before on this connection are not known
                t.any("stun-over-tcp-on-an-odd-carrier");
            } else if rs != qd && is_stun_reply && rs == qd.wrapping_add(1) && (malformed_with_change_request(app) || stream_malformed_cr.contains(&s.idx)) {
                // a binding request whose attributes do not tile the message (announced and present
                // value bytes disagree, stray bytes) or whose CHANGE-REQUEST has another size than 4,
                // and in which some walk of the attribute area can read a CHANGE-REQUEST header:
                // malformed, the statement does not say whether the exception applies
                t.any("malformed-stun-request-with-change-request-bytes");
            } else if rs != qd {
                if std::env::var("VERIF_DEBUG").is_ok() {
                    eprintln!("c03 debug: idx={} tcp={:?} stun_cp={:?} is_stun_reply={} carrier_clean={}", s.idx, s.tcp.as_ref().map(|t| (t.class.clone(), t.data.clone(), t.cookie)), stun_cp, is_stun_reply, s.carrier.clean());
                }
                bad("src-port", format!("reply source port {} is not the request's destination port {}", rs, qd));
            }
        }
        t.judged(Verdict::Reply, sig);
    }
    v
}

/// A STUN binding request that is not well-formed (TLVs do not tile, or a CHANGE-REQUEST of
/// another size than 4) and in whose attribute area a CHANGE-REQUEST header can be read.
fn malformed_with_change_request(app: &[u8]) -> bool {
    let wellformed = stun::parse(app).map(|m| m.is_binding_request() && m.tiles && m.odd_change_requests() == 0).unwrap_or(false);
    !wellformed && app.len() > 24 && app[0] == 0 && app[1] == 1 && app[20..].windows(2).any(|w| w == [0, 3])
}
