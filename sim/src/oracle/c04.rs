//! C04 - every emitted frame is well-formed at every layer.

use std::net::IpAddr;

use crate::model::Analysis;
use crate::oracle::c01::layer_path;
use crate::oracle::{size_class, Aux, Tally, Verdict, Violation};
use crate::wire::*;

pub fn check(a: &Analysis, _aux: &mut Aux, t: &mut Tally) -> Vec<Violation> {
    let mut v = Vec::new();
    for s in &a.steps {
        let (rep, raw) = match (&s.reply, &s.reply_raw) {
            (Some(r), Some(raw)) => (r, raw),
            _ => continue,
        };
        let path = layer_path(rep);
        let mut bad = |rule: &str, detail: String| {
            v.push(Violation {
                prop: "C04",
                rule: rule.to_string(),
                key: format!("{}:{}", rule, path),
                step: s.idx,
                detail,
            });
        };
        if rep.eth.is_none() {
            bad("eth-short", format!("emitted frame of {} bytes has no Ethernet header", raw.len()));
            continue;
        }
        let (src, dst): (Option<IpAddr>, Option<IpAddr>) = (rep.ip_src(), rep.ip_dst());
        match &rep.l3 {
            L3::Arp(_) => {}
            L3::V4(h) => {
                if h.version != 4 {
                    bad("ip4-version", format!("version {}", h.version));
                }
                if h.ihl < 5 || h.ihl as usize * 4 > h.avail {
                    bad("ip4-ihl", format!("IHL {} with {} bytes", h.ihl, h.avail));
                }
                if h.total_len as usize != h.avail {
                    bad("ip4-total-length", format!("total length {} but {} bytes follow the Ethernet header", h.total_len, h.avail));
                }
                if h.flags_frag & 0x3fff != 0 {
                    bad("ip4-fragment", format!("flags/fragment offset {:04x}", h.flags_frag));
                }
                if h.ttl < 1 {
                    bad("ip4-ttl", "TTL 0".into());
                }
                if !h.csum_ok {
                    bad("ip4-checksum", format!("header checksum {:04x} does not verify", h.csum));
                }
            }
            L3::V6(h) => {
                if h.version != 6 {
                    bad("ip6-version", format!("version {}", h.version));
                }
                if h.payload_len as usize + 40 != h.avail {
                    bad("ip6-payload-length", format!("payload length {} but {} bytes follow the IPv6 header", h.payload_len, h.avail.saturating_sub(40)));
                }
                if h.hlim < 1 {
                    bad("ip6-hop-limit", "hop limit 0".into());
                }
                if let L4::Icmp6(i) = &rep.l4 {
                    if i.ty == 136 && h.hlim != 255 {
                        bad("na-hop-limit", format!("neighbour advertisement with hop limit {}", h.hlim));
                    }
                }
            }
            L3::Short => bad("l3-short", "emitted frame too short for its network header".into()),
            _ => bad("l3-kind", "emitted frame is neither ARP, IPv4 nor IPv6".into()),
        }
        let mut csum_probe = None;
        if let (Some(src), Some(dst)) = (src, dst) {
            match &rep.l4 {
                L4::Icmp4(i) => {
                    let seg = &raw[i.seg_off..i.seg_off + i.seg_len];
                    if fold(ones_sum(0, seg)) != 0xffff {
                        bad("icmp-checksum", format!("ICMP checksum {:04x} does not verify", i.csum));
                    }
                    csum_probe = Some(i.csum);
                }
                L4::Icmp6(i) => {
                    let seg = &raw[i.seg_off..i.seg_off + i.seg_len];
                    if !l4_verifies(&src, &dst, P_ICMP6, seg) {
                        bad("icmp6-checksum", format!("ICMPv6 checksum {:04x} does not verify over the reply's pseudo-header", i.csum));
                    }
                    csum_probe = Some(i.csum);
                }
                L4::Tcp(th) => {
                    let seg = &raw[th.seg_off..th.seg_off + th.seg_len];
                    if !l4_verifies(&src, &dst, P_TCP, seg) {
                        bad("tcp-checksum", format!("TCP checksum {:04x} does not verify over the reply's pseudo-header", th.csum));
                    }
                    if th.doff < 5 || th.doff as usize * 4 > th.seg_len {
                        bad("tcp-data-offset", format!("data offset {} in a {}-byte segment", th.doff, th.seg_len));
                    }
                    if th.flags & 0x1ff == (F_SYN | F_ACK) {
                        if th.window == 0 {
                            bad("synack-window", "SYN-ACK with a zero window".into());
                        }
                        if th.seg_len != th.doff as usize * 4 {
                            // the data offset must describe the real header: a SYN-ACK carries no payload
                            // (C06), so the segment is exactly its header (options, if any, included)
                            bad("tcp-data-offset", format!("SYN-ACK of {} bytes with data offset {}", th.seg_len, th.doff));
                        }
                    }
                    csum_probe = Some(th.csum);
                }
                L4::Udp(u) => {
                    let seg = &raw[u.seg_off..u.seg_off + u.seg_len];
                    if u.len as usize != u.seg_len {
                        bad("udp-length", format!("UDP length {} but the datagram has {} bytes", u.len, u.seg_len));
                    }
                    match src {
                        IpAddr::V6(_) => {
                            if u.csum == 0 {
                                bad("udp6-zero-checksum", "UDP over IPv6 transmitted with checksum 0".into());
                            } else if !l4_verifies(&src, &dst, P_UDP, seg) {
                                bad("udp-checksum", format!("UDP checksum {:04x} does not verify", u.csum));
                            }
                        }
                        IpAddr::V4(_) => {
                            if u.csum != 0 && !l4_verifies(&src, &dst, P_UDP, seg) {
                                bad("udp-checksum", format!("UDP checksum {:04x} does not verify", u.csum));
                            }
                        }
                    }
                    csum_probe = Some(u.csum);
                }
                L4::Short => bad("l4-short", "emitted packet too short for its transport header".into()),
                L4::Other => bad("l4-kind", "emitted packet carries an unexpected protocol".into()),
                L4::None => {}
            }
        }
        if let Some(c) = csum_probe {
            if c == 0xffff {
                t.probe("reply-checksum-ffff");
            }
            if c == 0x0000 {
                t.probe("reply-checksum-0000");
            }
        }
        if raw.len() % 2 == 1 {
            t.probe("odd-length-reply");
        }
        let rk = match &rep.l4 {
            L4::Tcp(t) => format!("tcp:{}:{}", crate::oracle::flags_str(t.flags), crate::apps::sig::identify_reply(&raw[t.pay_off..t.pay_off + t.pay_len]).map(|a| format!("{:?}", a)).unwrap_or("-".into())),
            L4::Udp(u) => format!("udp:{}", crate::apps::sig::identify_reply(&raw[u.pay_off..u.pay_off + u.pay_len]).map(|a| format!("{:?}", a)).unwrap_or("?".into())),
            L4::Icmp4(i) | L4::Icmp6(i) => format!("icmp:{}", i.ty),
            _ => "l2".into(),
        };
        t.judged(Verdict::Reply, format!("{}|{}|{}|odd{}", path, rk, size_class(raw.len()), raw.len() % 2));
    }
    v
}
