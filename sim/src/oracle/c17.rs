//! C17 - SMB1/SMB2: negotiate / session-setup replies framed, correlated, consistent.

use crate::apps::sig::{self, Decision};
use crate::apps::smb::{self, Smb1Hdr, Smb2Hdr, SmbClass};
use crate::apps::App;
use crate::model::Analysis;
use crate::oracle::{Aux, Tally, Verdict, Violation};

fn is_smb_reply(r: &[u8]) -> bool {
    r.len() >= 8 && (&r[4..8] == b"\xffSMB" || &r[4..8] == b"\xfeSMB")
}

fn judge(payload: &[u8], reply: Option<&[u8]>, carrier: &str, later: bool, idx: usize, t: &mut Tally, v: &mut Vec<Violation>) {
    // Several NetBIOS session messages in one segment: the first one is the request that has to
    // get its matching response (a responder may answer the others behind it, or not).
    let mut multi = false;
    let mut payload = payload;
    if payload.len() >= 8 && payload[0] == 0 && payload[1] == 0 {
        let n = ((payload[2] as usize) << 8) | payload[3] as usize;
        if n >= 32 && n + 4 < payload.len() && matches!(smb::classify(&payload[..4 + n]), SmbClass::Smb1Negotiate { .. } | SmbClass::Smb1SessionSetup | SmbClass::Smb2Negotiate { .. } | SmbClass::Smb2SessionSetup) {
            payload = &payload[..4 + n];
            multi = true;
        }
    }
    let mut reply = reply;
    if multi {
        if let Some(r) = reply {
            if r.len() >= 4 && r[0] == 0 {
                let n = ((r[1] as usize & 1) << 16) | ((r[2] as usize) << 8) | r[3] as usize;
                if n + 4 < r.len() {
                    reply = Some(&r[..4 + n]);
                }
            }
        }
    }
    let carrier = if multi { format!("{}+multi", carrier) } else { carrier.to_string() };
    let carrier = &carrier[..];
    let class = smb::classify(payload);
    let mut bad = |rule: &str, key: String, detail: String| {
        v.push(Violation {
            prop: "C17",
            rule: rule.into(),
            key,
            step: idx,
            detail,
        });
    };
    let which = match &class {
        SmbClass::NotSmb => return,
        SmbClass::DontCare(w) => {
            t.any(w);
            return;
        }
        SmbClass::ResponseFlagged | SmbClass::OtherCommand => {
            let why = if class == SmbClass::ResponseFlagged { "response-flag" } else { "other-command" };
            t.judged(Verdict::Silent, format!("{}|{}|smb{}|later{}", carrier, why, if payload[4] == 0xff { 1 } else { 2 }, later as u8));
            if reply.map(is_smb_reply).unwrap_or(false) {
                bad("answered", format!("answered:{}", why), format!("SMB message with {} was answered", why));
            }
            return;
        }
        SmbClass::Smb1Negotiate { .. } => "smb1-negotiate",
        SmbClass::Smb1SessionSetup => "smb1-session-setup",
        SmbClass::Smb2Negotiate { .. } => "smb2-negotiate",
        SmbClass::Smb2SessionSetup => "smb2-session-setup",
    };
    // SMB2 negotiate without any supported dialect: no reply
    if let SmbClass::Smb2Negotiate { dialects } = &class {
        if !dialects.iter().any(|d| smb::SMB2_KNOWN.contains(d)) {
            t.judged(Verdict::Silent, format!("{}|smb2-negotiate|no-supported-dialect", carrier));
            if reply.map(is_smb_reply).unwrap_or(false) {
                bad("answered", "answered:no-supported-dialect".into(), "SMB2 negotiate offering no supported dialect was answered".into());
            }
            return;
        }
    }
    let extra = match &class {
        SmbClass::Smb1Negotiate { dialects } => format!("d{}", dialects.len().min(4)),
        SmbClass::Smb2Negotiate { dialects } => {
            let mut u = dialects.clone();
            u.sort();
            u.dedup();
            format!("d{}|dup{}", dialects.len().min(4), (u.len() != dialects.len()) as u8)
        }
        _ => String::new(),
    };
    t.judged(Verdict::Reply, format!("{}|{}|{}|later{}", carrier, which, extra, later as u8));
    let r = match reply {
        Some(r) if !r.is_empty() => r,
        _ => {
            let why = match &class {
                SmbClass::Smb2Negotiate { dialects } => {
                    let mut u = dialects.clone();
                    u.sort();
                    u.dedup();
                    if u.len() != dialects.len() {
                        "duplicate-dialects"
                    } else {
                        "-"
                    }
                }
                _ => "-",
            };
            bad("unanswered", format!("unanswered:{}:{}", which, why), format!("{} request of {} bytes over {} was not answered", which, payload.len(), carrier));
            return;
        }
    };
    // NetBIOS framing
    if r.len() < 4 || r[0] != 0 {
        bad("nbt", "nbt-type".into(), "reply is not a NetBIOS session message".into());
        return;
    }
    let nlen = ((r[1] as usize & 1) << 16) | ((r[2] as usize) << 8) | r[3] as usize;
    if nlen != r.len() - 4 {
        bad("nbt-length", "nbt-length".into(), format!("NetBIOS length {} but {} bytes follow", nlen, r.len() - 4));
    }
    let m = &r[4..];
    let q = &payload[4..];
    match &class {
        SmbClass::Smb1Negotiate { .. } | SmbClass::Smb1SessionSetup => {
            let (qh, rh) = match (Smb1Hdr::decode(q), Smb1Hdr::decode(m)) {
                (Some(a), Some(b)) => (a, b),
                _ => {
                    bad("smb1-header", "smb1-header".into(), "reply does not carry an SMB1 header".into());
                    return;
                }
            };
            if rh.flags & 0x80 == 0 {
                bad("reply-flag", "smb1-reply-flag".into(), "reply flag not set".into());
            }
            if rh.command != qh.command {
                bad("command", "smb1-command".into(), format!("reply command {:#x}, request {:#x}", rh.command, qh.command));
            }
            if (rh.pid_high, rh.pid_low, rh.tid, rh.uid, rh.mid) != (qh.pid_high, qh.pid_low, qh.tid, qh.uid, qh.mid) {
                bad("correlation", "smb1-correlation".into(), format!("PID/TID/UID/MID {:?} not echoed: {:?}", (qh.pid_high, qh.pid_low, qh.tid, qh.uid, qh.mid), (rh.pid_high, rh.pid_low, rh.tid, rh.uid, rh.mid)));
            }
            let b = &m[32..];
            if b.is_empty() {
                bad("body", "smb1-body".into(), "reply without parameter block".into());
                return;
            }
            let wc = b[0] as usize;
            if b.len() < 1 + 2 * wc + 2 {
                bad("body", "smb1-body".into(), format!("WordCount {} does not fit the reply", wc));
                return;
            }
            let words = &b[1..1 + 2 * wc];
            let bc = u16::from_le_bytes([b[1 + 2 * wc], b[2 + 2 * wc]]) as usize;
            let bytes = &b[3 + 2 * wc..];
            if bc != bytes.len() {
                bad("byte-count", "smb1-byte-count".into(), format!("ByteCount {} but {} bytes follow", bc, bytes.len()));
            }
            if let SmbClass::Smb1Negotiate { dialects } = &class {
                if wc < 1 {
                    bad("body", "smb1-negotiate-wordcount".into(), format!("negotiate response with WordCount {}", wc));
                    return;
                }
                let di = u16::from_le_bytes([words[0], words[1]]) as usize;
                if di >= dialects.len() {
                    bad("dialect", "smb1-dialect-index".into(), format!("DialectIndex {} but {} dialects were offered", di, dialects.len()));
                } else if dialects.iter().any(|d| &d[..] == b"NT LM 0.12") && !crate::apps::smb::SMB1_REAL_DIALECTS.iter().any(|d| d.as_bytes() == &dialects[di][..]) {
                    // When nothing it knows is offered the responder falls back to the first
                    // offered dialect, whatever it is (the statement only asks for an offered one).
                    // But when the client offers "NT LM 0.12" - the one dialect every SMB1 server
                    // speaks - next to made-up names, "selecting" a name that is no SMB dialect at
                    // all can only be a wrong index
                    bad(
                        "dialect",
                        "smb1-dialect-made-up".into(),
                        format!("DialectIndex {} designates {:?}, which is no SMB dialect at all ({} offered)", di, String::from_utf8_lossy(&dialects[di]), dialects.len()),
                    );
                }
                if dialects.len() > 256 {
                    t.probe("more-than-256-dialects-offered");
                }
            } else {
                // the extended-security response (4 words) carries a SecurityBlobLength
                let blob = if wc == 4 { u16::from_le_bytes([words[6], words[7]]) as usize } else { 0 };
                if blob > bytes.len() {
                    bad("blob", "smb1-session-blob".into(), format!("SecurityBlobLength {} exceeds the {} data bytes present", blob, bytes.len()));
                }
            }
        }
        SmbClass::Smb2Negotiate { .. } | SmbClass::Smb2SessionSetup => {
            let (qh, rh) = match (Smb2Hdr::decode(q), Smb2Hdr::decode(m)) {
                (Some(a), Some(b)) => (a, b),
                _ => {
                    bad("smb2-header", "smb2-header".into(), "reply does not carry an SMB2 header".into());
                    return;
                }
            };
            if rh.flags & 1 == 0 {
                bad("reply-flag", "smb2-reply-flag".into(), "SMB2_FLAGS_SERVER_TO_REDIR not set".into());
            }
            if rh.command != qh.command {
                bad("command", "smb2-command".into(), format!("reply command {}, request {}", rh.command, qh.command));
            }
            if (rh.message_id, rh.async_id, rh.session_id) != (qh.message_id, qh.async_id, qh.session_id) {
                bad("correlation", "smb2-correlation".into(), "MessageId/AsyncId/SessionId not echoed".into());
            }
            let b = &m[64..];
            if let SmbClass::Smb2Negotiate { dialects } = &class {
                if b.len() < 64 {
                    bad("body", "smb2-negotiate-body".into(), format!("negotiate response body of {} bytes", b.len()));
                    return;
                }
                let rev = u16::from_le_bytes([b[4], b[5]]);
                if !dialects.contains(&rev) {
                    bad("dialect", "smb2-dialect".into(), format!("DialectRevision {:#06x} was not offered ({:x?})", rev, dialects));
                }
                let off = u16::from_le_bytes([b[56], b[57]]) as usize;
                let len = u16::from_le_bytes([b[58], b[59]]) as usize;
                if off < 128 || off + len != m.len() {
                    bad("blob", "smb2-negotiate-blob".into(), format!("SecurityBufferOffset {} + SecurityBufferLength {} does not match the {} byte message", off, len, m.len()));
                }
            } else {
                if b.len() < 8 {
                    bad("body", "smb2-session-body".into(), format!("session-setup response body of {} bytes", b.len()));
                    return;
                }
                let off = u16::from_le_bytes([b[4], b[5]]) as usize;
                let len = u16::from_le_bytes([b[6], b[7]]) as usize;
                if off < 72 || off + len != m.len() {
                    bad("blob", "smb2-session-blob".into(), format!("SecurityBufferOffset {} + SecurityBufferLength {} does not match the {} byte message", off, len, m.len()));
                }
            }
        }
        _ => {}
    }
}

pub fn check(a: &Analysis, _aux: &mut Aux, t: &mut Tally) -> Vec<Violation> {
    let mut v = Vec::new();
    let sigs = sig::signatures();
    let smb_sig = |p: &[u8], datagram: bool| -> Option<App> {
        match sig::decide(&sigs, p, datagram) {
            Decision::Match { sig, .. } if matches!(sigs[sig].app, App::Smb1 | App::Smb2) => Some(sigs[sig].app),
            _ => None,
        }
    };
    for x in a.udp_exchanges() {
        if smb_sig(x.payload, true).is_none() {
            continue;
        }
        judge(x.payload, x.reply, &format!("udp{}", if x.v6 { 6 } else { 4 }), false, a.steps[x.si].idx, t, &mut v);
    }
    for st in a.tcp_streams() {
        if st.dirty || st.segs.is_empty() {
            continue;
        }
        let s0 = &st.segs[0];
        let p0 = &st.stream[..s0.len];
        let app = match smb_sig(p0, false) {
            Some(app) => app,
            None => continue,
        };
        let v6 = matches!(st.flow.src, std::net::IpAddr::V6(_));
        let carrier = format!("tcp{}", if v6 { 6 } else { 4 });
        for (k, sg) in st.segs.iter().enumerate() {
            let p = &st.stream[sg.off..sg.off + sg.len];
            if k > 0 {
                // dialogue on the identified flow: only messages of the same SMB generation
                let same = p.len() >= 8 && p[4] == if app == App::Smb1 { 0xff } else { 0xfe } && &p[5..8] == b"SMB";
                if !same {
                    continue;
                }
                t.probe("second-message-on-smb-flow");
            }
            judge(p, sg.reply_app.as_deref(), &carrier, k > 0, a.steps[sg.si].idx, t, &mut v);
        }
    }
    v
}
