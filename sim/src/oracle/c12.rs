//! C12 - only requests are answered: protocol-marked replies never elicit a reply,
//! and bouncing replies back at the responder dies out after at most two replies.

use std::collections::BTreeMap;

use crate::apps::sig::{self, Decision};
use crate::apps::{dns, rpc, smb, stun, App};
use crate::model::Analysis;
use crate::oracle::{flags_str, Aux, Tally, Verdict, Violation};
use crate::wire::*;
use crate::world::net::reflect;

/// Is this application payload a message its own protocol marks as a reply?
fn reply_typed(p: &[u8], tcp: bool) -> Option<(App, &'static str)> {
    if let Some(m) = stun::parse(p) {
        if m.top_bits_zero && m.len_matches && m.tiles && m.class != 0 && (m.magic || m.ty == 0x0101 || m.ty == 0x0111) {
            return Some((App::Stun, "stun-non-request-class"));
        }
    }
    if p.len() >= 8 && p[0] == 0 && (&p[4..8] == b"\xffSMB" || &p[4..8] == b"\xfeSMB") {
        if smb::classify(p) == smb::SmbClass::ResponseFlagged {
            return Some((if p[4] == 0xff { App::Smb1 } else { App::Smb2 }, "smb-reply-flag"));
        }
        return None;
    }
    let body = if tcp && p.len() >= 4 && p[0] & 0x80 != 0 && (u32::from_be_bytes([p[0] & 0x7f, p[1], p[2], p[3]]) as usize) == p.len() - 4 {
        &p[4..]
    } else {
        p
    };
    if !tcp || body.len() != p.len() {
        if let Some(r) = rpc::parse_reply(body) {
            if r.msg_type == 1 && r.reply_stat <= 1 && r.verf_flavor <= 6 && r.verf_len <= 400 && body.len() % 4 == 0 && r.accept_stat <= 5 {
                return Some((App::Rpc, "rpc-reply-message"));
            }
        }
    }
    if !tcp {
        if let Ok(m) = dns::decode(p) {
            if m.h.qr() && m.consumed == p.len() && (m.h.qd as usize + m.h.an as usize) > 0 {
                return Some((App::Dns, "dns-qr-1"));
            }
        }
    }
    None
}

pub fn check(a: &Analysis, _aux: &mut Aux, t: &mut Tally) -> Vec<Violation> {
    let mut v = Vec::new();
    let sigs = sig::signatures();
    // ---- per message: layers 2-4
    for s in &a.steps {
        if s.carrier.out.is_some() || !s.carrier.l3_ok {
            continue;
        }
        let what: Option<String> = match (&s.req.l3, &s.req.l4) {
            (L3::Arp(q), _) if q.f.op == 2 => Some("arp-reply".into()),
            (_, L4::Icmp4(i)) if i.ty == 0 => Some("echo-reply".into()),
            (_, L4::Icmp6(i)) if i.ty == 129 => Some("echo6-reply".into()),
            (_, L4::Icmp6(i)) if i.ty == 136 => Some("neighbour-advertisement".into()),
            (_, L4::Tcp(th)) if s.carrier.l4_ok && s.carrier.dst_handled => {
                let f = th.flags & 0x1ff;
                if f == (F_SYN | F_ACK) {
                    Some("tcp-synack".into())
                } else if f & F_RST != 0 && f & (F_PSH | F_ACK) != (F_PSH | F_ACK) {
                    Some(format!("tcp-rst:{}", flags_str(f)))
                } else {
                    None
                }
            }
            _ => None,
        };
        if let Some(w) = what {
            t.judged(Verdict::Silent, w.clone());
            if s.reply.is_some() {
                v.push(Violation {
                    prop: "C12",
                    rule: "reply-answered".into(),
                    key: format!("answered:{}", w.split(':').next().unwrap()),
                    step: s.idx,
                    detail: format!("{} was answered", w),
                });
            }
        }
    }
    // ---- per message: application layer over UDP
    for x in a.udp_exchanges() {
        if let Some((app, why)) = reply_typed(x.payload, false) {
            let d = sig::decide(&sigs, x.payload, true);
            // "also a valid request of another supported protocol": completes another protocol's
            // signature, or (datagrams fall back to DNS) parses completely as a DNS query
            // ... or is a message about which C14 itself leaves open whether the DNS responder answers it
            // (e.g. a name whose label length runs over NUL octets: the responder reads names up to
            // the first zero octet)
            let dns_query = app != App::Dns
                && d == Decision::NoMatch
                && (dns::decode(x.payload).map(|m| !m.h.qr() && m.consumed <= x.payload.len()).unwrap_or(false)
                    || matches!(dns::classify_query(x.payload), dns::QueryClass::DontCare(_)));
            let other = matches!(&d, Decision::Match { sig, .. } if sigs[*sig].app != app) || d == Decision::Ambiguous || dns_query;
            let idx = a.steps[x.si].idx;
            if other {
                t.any("also-completes-another-protocol-signature");
                // still: no reply of its own protocol
                if x.reply.and_then(sig::identify_reply) == Some(app) {
                    v.push(Violation {
                        prop: "C12",
                        rule: "reply-answered-by-own-protocol".into(),
                        key: format!("answered:{}", why),
                        step: idx,
                        detail: format!("{} message was answered by the {:?} responder", why, app),
                    });
                }
                continue;
            }
            t.judged(Verdict::Silent, format!("udp{}|{}", if x.v6 { 6 } else { 4 }, why));
            if x.reply.is_some() || x.odd_reply {
                v.push(Violation {
                    prop: "C12",
                    rule: "reply-answered".into(),
                    key: format!("answered:{}", why),
                    step: idx,
                    detail: format!("{} message of {} bytes over UDP was answered", why, x.payload.len()),
                });
            }
        }
    }
    // ---- per message: application layer on identified TCP flows
    for st in a.tcp_streams() {
        if st.dirty || st.segs.is_empty() {
            continue;
        }
        let p0 = &st.stream[..st.segs[0].len];
        let flow_app = match sig::decide(&sigs, p0, false) {
            Decision::Match { sig, .. } => Some(sigs[sig].app),
            _ => None,
        };
        // record-mark boundaries of the stream (the RPC parser is stateful across segments: a
        // segment is only a message of its own if it starts on such a boundary)
        let mut bounds: Vec<usize> = vec![0];
        {
            let mut i = 0usize;
            while i + 4 <= st.stream.len() {
                let l = (u32::from_be_bytes([st.stream[i] & 0x7f, st.stream[i + 1], st.stream[i + 2], st.stream[i + 3]])) as usize;
                i += 4 + l;
                if i > st.stream.len() || l == 0 {
                    break;
                }
                bounds.push(i);
            }
        }
        for (k, sg) in st.segs.iter().enumerate() {
            let p = &st.stream[sg.off..sg.off + sg.len];
            if let Some((app, why)) = reply_typed(p, true) {
                if app == App::Rpc && !bounds.contains(&sg.off) {
                    t.any("rpc-segment-not-on-a-record-boundary");
                    continue;
                }
                // on a flow identified as that protocol the message reaches its own responder
                let same_family = match (flow_app, app) {
                    (Some(x), y) if x == y => true,
                    _ => false,
                };
                if k == 0 || same_family {
                    t.judged(Verdict::Silent, format!("tcp|{}|seg{}", why, k.min(2)));
                    if k > 0 {
                        t.probe("reply-typed-message-on-identified-flow");
                    }
                    let app_reply = sg.reply_app.as_deref().unwrap_or(&[]);
                    if sig::identify_reply(app_reply) == Some(app) {
                        v.push(Violation {
                            prop: "C12",
                            rule: "reply-answered-by-own-protocol".into(),
                            key: format!("answered:{}:tcp{}", why, if k == 0 { "" } else { "-later" }),
                            step: a.steps[sg.si].idx,
                            detail: format!("{} message in segment {} of a {:?} flow drew a {:?} response", why, k, flow_app, app),
                        });
                    }
                }
            }
        }
    }
    // ---- reflection chains
    // parent[j] = i  if frame j is exactly the reflection of the reply to frame i
    let mut refl: BTreeMap<Vec<u8>, usize> = BTreeMap::new();
    let mut depth: Vec<usize> = vec![0; a.steps.len()];
    let mut root_proto: Vec<Option<String>> = vec![None; a.steps.len()];
    for (j, s) in a.steps.iter().enumerate() {
        if let Some(i) = refl.get(&s.raw).copied() {
            depth[j] = depth[i] + 1;
            root_proto[j] = if depth[i] == 0 {
                a.steps[i].reply_raw.as_ref().map(|r| reply_family(r))
            } else {
                root_proto[i].clone()
            };
        }
        if let Some(r) = &s.reply_raw {
            if let Some(f) = reflect(r) {
                refl.insert(f, j);
            }
        }
    }
    for (j, s) in a.steps.iter().enumerate() {
        if depth[j] == 0 {
            continue;
        }
        let fam = root_proto[j].clone().unwrap_or_default();
        let listed = !matches!(fam.as_str(), "http" | "ssh" | "ghost" | "tcp-ack" | "other");
        if !listed {
            t.any("reflection-of-a-protocol-without-reply-marker");
            continue;
        }
        t.judged(
            if depth[j] >= 3 { Verdict::Silent } else { Verdict::Any },
            format!("chain|{}|depth{}|{}", fam, depth[j].min(4), if s.reply.is_some() { "reply" } else { "silence" }),
        );
        t.probe("reflected-frame-delivered");
        if depth[j] >= 3 && s.reply.is_some() {
            v.push(Violation {
                prop: "C12",
                rule: "reflection-chain".into(),
                key: format!("chain-longer-than-2:{}", fam),
                step: s.idx,
                detail: format!("the {} reply bounced back {} times is still being answered (third reply of the chain)", fam, depth[j]),
            });
        }
    }
    v
}

/// Protocol family of a reply frame of the node.
fn reply_family(r: &[u8]) -> String {
    let p = parse(r);
    match (&p.l3, &p.l4) {
        (L3::Arp(_), _) => "arp".into(),
        (_, L4::Icmp4(_)) => "icmp-echo".into(),
        (_, L4::Icmp6(i)) => if i.ty == 136 { "nd".into() } else { "icmp6-echo".into() },
        (_, L4::Tcp(t)) => {
            let app = &r[t.pay_off..t.pay_off + t.pay_len];
            if t.flags & 0x1ff == (F_SYN | F_ACK) {
                "tcp-synack".into()
            } else if app.is_empty() {
                "tcp-ack".into()
            } else {
                app_family(app)
            }
        }
        (_, L4::Udp(u)) => app_family(&r[u.pay_off..u.pay_off + u.pay_len]),
        _ => "other".into(),
    }
}

fn app_family(app: &[u8]) -> String {
    match sig::identify_reply(app) {
        Some(App::Http) => "http".into(),
        Some(App::Ssh) => "ssh".into(),
        Some(App::Ghost) => "ghost".into(),
        Some(App::Stun) => "stun".into(),
        Some(App::Dns) => "dns".into(),
        Some(App::Rpc) => "rpc".into(),
        Some(App::Smb1) | Some(App::Smb2) => "smb".into(),
        _ => "other".into(),
    }
}
