//! C13 - HTTP: complete requests get a well-formed 401, anything else gets silence.

use crate::apps::http::{self, HttpClass};
use crate::model::Analysis;
use crate::oracle::{size_class, Aux, Tally, Verdict, Violation};

fn looks_http(b: &[u8]) -> bool {
    http::METHODS.iter().any(|m| {
        let n = m.len().min(b.len()).min(3);
        n >= 3 && b[..n].eq_ignore_ascii_case(&m.as_bytes()[..n])
    })
}

fn is_http_reply(r: &[u8]) -> bool {
    r.starts_with(b"HTTP/")
}

pub fn check(a: &Analysis, _aux: &mut Aux, t: &mut Tally) -> Vec<Violation> {
    let mut v = Vec::new();
    // datagrams
    for x in a.udp_exchanges() {
        if !looks_http(x.payload) {
            continue;
        }
        let idx = a.steps[x.si].idx;
        let carrier = format!("udp{}", if x.v6 { 6 } else { 4 });
        match http::classify(x.payload) {
            HttpClass::Complete { end, method } => {
                if end != x.payload.len() {
                    t.any("trailing-bytes-after-request");
                    continue;
                }
                t.judged(Verdict::Reply, format!("{}|complete|{}|{}", carrier, method, size_class(x.payload.len())));
                if x.payload.iter().any(|c| *c >= 0x80) {
                    t.probe("non-ascii-bytes-in-request");
                }
                match x.reply {
                    Some(r) => {
                        for (rule, detail) in http::check_response(r) {
                            v.push(Violation {
                                prop: "C13",
                                rule: rule.into(),
                                key: format!("response:{}", rule),
                                step: idx,
                                detail,
                            });
                        }
                    }
                    None => v.push(Violation {
                        prop: "C13",
                        rule: "unanswered".into(),
                        key: format!("unanswered:{}:{}", carrier_kind(&carrier), method),
                        step: idx,
                        detail: format!("complete {} request of {} bytes over {} was not answered", method, x.payload.len(), carrier),
                    }),
                }
            }
            HttpClass::Incomplete | HttpClass::Malformed(_) => {
                let why = match http::classify(x.payload) {
                    HttpClass::Malformed(w) => w,
                    _ => "incomplete",
                };
                t.judged(Verdict::Silent, format!("{}|{}", carrier, why));
                if x.reply.map(is_http_reply).unwrap_or(false) {
                    v.push(Violation {
                        prop: "C13",
                        rule: "answered".into(),
                        key: format!("answered:{}", why),
                        step: idx,
                        detail: format!("request that is {} was answered with an HTTP response", why),
                    });
                }
            }
            HttpClass::DontCare(w) => t.any(w),
        }
    }
    // streams
    for st in a.tcp_streams() {
        if st.dirty || st.segs.is_empty() || !looks_http(&st.stream) {
            continue;
        }
        let v6 = matches!(st.flow.src, std::net::IpAddr::V6(_));
        let carrier = format!("tcp{}", if v6 { 6 } else { 4 });
        let first = &st.segs[0];
        match http::classify(&st.stream) {
            HttpClass::Complete { end, method } => {
                if first.len < method.len() + 2 {
                    t.any("cut-inside-signature(c11)");
                    continue;
                }
                let trig = match st.seg_of(end - 1) {
                    Some(k) => k,
                    None => continue,
                };
                t.judged(
                    Verdict::Reply,
                    format!("{}|complete|{}|segs{}|trig{}", carrier, method, st.segs.len().min(5), trig.min(4)),
                );
                for (k, sg) in st.segs.iter().enumerate().take(trig + 1) {
                    let idx = a.steps[sg.si].idx;
                    let app = sg.reply_app.as_deref().unwrap_or(&[]);
                    if k < trig {
                        if !app.is_empty() {
                            v.push(Violation {
                                prop: "C13",
                                rule: "answered-early".into(),
                                key: "answered-before-complete".into(),
                                step: idx,
                                detail: format!("segment {} (stream bytes {}..{}) drew {} reply bytes although the request only completes at byte {}", k, sg.off, sg.off + sg.len, app.len(), end),
                            });
                        }
                    } else if app.is_empty() {
                        v.push(Violation {
                            prop: "C13",
                            rule: "unanswered".into(),
                            key: format!("unanswered:tcp:{}", method),
                            step: idx,
                            detail: format!("the segment completing the {} request (stream byte {}) carried no response", method, end),
                        });
                    } else {
                        for (rule, detail) in http::check_response(app) {
                            v.push(Violation {
                                prop: "C13",
                                rule: rule.into(),
                                key: format!("response:{}", rule),
                                step: idx,
                                detail,
                            });
                        }
                    }
                }
                // Later requests of the same connection (keep-alive): as long as every request so
                // far was a plain HTTP/1.1 request without body or connection management, a further
                // complete request that starts at a segment boundary is a complete HTTP request over
                // TCP like the first one, and the segment completing it carries the response.
                let mut pos = end;
                let mut prev = 0usize;
                let mut nth = 1usize;
                while plain_11(&st.stream[prev..pos]) && pos < st.stream.len() {
                    let rest = &st.stream[pos..];
                    let (e2, m2) = match http::classify(rest) {
                        HttpClass::Complete { end, method } => (end, method),
                        _ => break,
                    };
                    if !st.segs.iter().any(|s| s.off == pos) {
                        break;
                    }
                    let k = match st.seg_of(pos + e2 - 1) {
                        Some(k) => k,
                        None => break,
                    };
                    let sg = &st.segs[k];
                    let idx = a.steps[sg.si].idx;
                    let app = sg.reply_app.as_deref().unwrap_or(&[]);
                    let bucket = if nth >= 1000 { "1000+" } else if nth >= 100 { "100+" } else if nth >= 10 { "10+" } else { "1+" };
                    t.judged(Verdict::Reply, format!("{}|later-request|{}|nth{}", carrier, m2, bucket));
                    if app.is_empty() {
                        v.push(Violation {
                            prop: "C13",
                            rule: "unanswered".into(),
                            key: format!("unanswered:tcp:later-request:{}", m2),
                            step: idx,
                            detail: format!("request number {} of the connection ({} at stream byte {}, complete at byte {}) carried no response", nth + 1, m2, pos, pos + e2),
                        });
                        break;
                    }
                    for (rule, detail) in http::check_response(app) {
                        v.push(Violation {
                            prop: "C13",
                            rule: rule.into(),
                            key: format!("response:{}", rule),
                            step: idx,
                            detail,
                        });
                    }
                    prev = pos;
                    pos += e2;
                    nth += 1;
                }
            }
            HttpClass::Incomplete | HttpClass::Malformed(_) => {
                let why = match http::classify(&st.stream) {
                    HttpClass::Malformed(w) => w,
                    _ => "incomplete",
                };
                // judge the region up to the first empty line (a resynchronising server may answer later)
                let limit = first_empty_line(&st.stream).unwrap_or(st.stream.len());
                t.judged(Verdict::Silent, format!("{}|{}|segs{}", carrier, why, st.segs.len().min(5)));
                for sg in st.segs.iter().filter(|s| s.off < limit) {
                    if sg.reply_app.as_deref().map(is_http_reply).unwrap_or(false) {
                        v.push(Violation {
                            prop: "C13",
                            rule: "answered".into(),
                            key: format!("answered:{}", why),
                            step: a.steps[sg.si].idx,
                            detail: format!("stream whose request is {} was answered with an HTTP response", why),
                        });
                        break;
                    }
                }
            }
            HttpClass::DontCare(w) => t.any(w),
        }
    }
    v
}

/// A request after which the connection certainly goes on with another request: HTTP/1.1, no
/// body announced, no connection management.
fn plain_11(req: &[u8]) -> bool {
    if req.is_empty() {
        return false;
    }
    let lower: Vec<u8> = req.iter().map(|c| c.to_ascii_lowercase()).collect();
    let line_end = lower.iter().position(|c| *c == b'\n').unwrap_or(lower.len());
    let mut line = &lower[..line_end];
    if line.ends_with(b"\r") {
        line = &line[..line.len() - 1];
    }
    if !line.ends_with(b" http/1.1") {
        return false;
    }
    let has = |needle: &[u8]| lower.windows(needle.len()).any(|w| w == needle);
    !(has(b"content-length") || has(b"transfer-encoding") || has(b"connection") || has(b"expect") || has(b"upgrade") || has(b"keep-alive"))
}

fn carrier_kind(c: &str) -> &'static str {
    if c.starts_with("udp") {
        "udp"
    } else {
        "tcp"
    }
}

fn first_empty_line(b: &[u8]) -> Option<usize> {
    let mut i = 0;
    while i + 1 < b.len() {
        if b[i] == b'\n' && (b[i + 1] == b'\n' || (i + 2 < b.len() && b[i + 1] == b'\r' && b[i + 2] == b'\n')) {
            return Some(i + 2);
        }
        i += 1;
    }
    None
}
