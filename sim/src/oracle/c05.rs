//! C05 - ARP, neighbour discovery and echo are answered correctly, and only those.

use std::net::IpAddr;

use crate::model::Analysis;
use crate::oracle::{size_class, Aux, Tally, Verdict, Violation};
use crate::wire::*;

pub fn check(a: &Analysis, _aux: &mut Aux, t: &mut Tally) -> Vec<Violation> {
    let mut v = Vec::new();
    let cfg = &a.hist.config;
    for s in &a.steps {
        if s.carrier.out.is_some() || !s.carrier.l3_ok {
            continue;
        }
        if !s.carrier.l4_ok {
            // an ICMP / ICMPv6 message whose checksum does not verify is no request a responder has
            // to honour (one that verifies checksums drops it, the unchanged one answers)
            t.any("request-checksum-does-not-verify");
            continue;
        }
        let mut bad = |rule: &str, key: String, detail: String| {
            v.push(Violation {
                prop: "C05",
                rule: rule.to_string(),
                key,
                step: s.idx,
                detail,
            });
        };
        match (&s.req.l3, &s.req.l4) {
            (L3::Arp(q), _) => {
                let f = &q.f;
                if f.op != 1 {
                    t.judged(Verdict::Silent, format!("arp|op{}", f.op.min(26)));
                    if s.reply.is_some() {
                        bad("arp-other-op", format!("arp-op-answered:{}", f.op), format!("ARP operation {} was answered", f.op));
                    }
                    continue;
                }
                let ether_ip = f.htype == 1 && f.ptype == 0x0800 && f.hlen == 6 && f.plen == 4;
                if !cfg.handles(&IpAddr::V4(f.tpa.into())) {
                    t.judged(Verdict::Silent, "arp|request|target-not-handled".into());
                    if s.reply.is_some() {
                        bad("arp-foreign-target", "arp-foreign-target-answered".into(), format!("ARP request for {:?}, not a handled address, was answered", f.tpa));
                    }
                    continue;
                }
                if !ether_ip {
                    t.any("arp-request-not-ethernet-ipv4");
                    continue;
                }
                t.judged(Verdict::Reply, format!("arp|request|handled|pad{}", size_class(q.trailer_len)));
                if q.trailer_len > 0 {
                    t.probe("arp-request-with-ethernet-padding");
                }
                match s.reply.as_ref().map(|r| &r.l3) {
                    Some(L3::Arp(r)) => {
                        let g = &r.f;
                        let ok = g.op == 2
                            && g.htype == 1
                            && g.ptype == 0x0800
                            && g.hlen == 6
                            && g.plen == 4
                            && g.sha == cfg.mac
                            && g.spa == f.tpa
                            && g.tha == f.sha
                            && g.tpa == f.spa;
                        if !ok {
                            bad("arp-reply-fields", "arp-reply-fields".into(), format!("ARP reply {:?} does not answer request {:?}", g, f));
                        }
                    }
                    Some(_) => bad("arp-reply-kind", "arp-reply-kind".into(), "ARP request answered with a non-ARP frame".into()),
                    None => bad("arp-unanswered", "arp-unanswered".into(), format!("ARP request for handled address {:?} was not answered", f.tpa)),
                }
            }
            (L3::V4(_), L4::Icmp4(q)) => {
                if !s.carrier.dst_handled {
                    continue; // C02's business
                }
                if q.ty == 8 && q.code == 0 {
                    if q.rest_len < 4 {
                        t.any("echo-request-shorter-than-id-seq");
                        continue;
                    }
                    if q.rest_len - 4 > 1472 {
                        // the statement's echo domain ends at 1472 data bytes (what fits an
                        // unfragmented packet of 1500): whether and how longer ones are echoed is open
                        t.any("echo-data-above-1472");
                        continue;
                    }
                    t.judged(Verdict::Reply, format!("icmp|echo|{}|{}", size_class(q.rest_len - 4), (q.rest_len % 2)));
                    echo_reply(s, q, 0, false, &mut bad);
                } else {
                    t.judged(
                        Verdict::Silent,
                        format!("icmp|type{}|code{}", q.ty, if q.code == 0 { "0" } else { "nz" }),
                    );
                    if s.reply.is_some() {
                        bad("icmp-other", format!("icmp-answered:type{}:code{}", q.ty, if q.code == 0 { "0" } else { "nz" }), format!("ICMP type {} code {} was answered", q.ty, q.code));
                    }
                }
            }
            (L3::V6(_), L4::Icmp6(q)) => {
                if q.ty == 128 && q.code == 0 {
                    if !s.carrier.dst_handled {
                        continue; // C02's business
                    }
                    if q.rest_len < 4 {
                        t.any("echo-request-shorter-than-id-seq");
                        continue;
                    }
                    if q.rest_len - 4 > 1472 {
                        // the statement's echo domain ends at 1472 data bytes (what fits an
                        // unfragmented packet of 1500): whether and how longer ones are echoed is open
                        t.any("echo-data-above-1472");
                        continue;
                    }
                    t.judged(Verdict::Reply, format!("icmp6|echo|{}|{}", size_class(q.rest_len - 4), (q.rest_len % 2)));
                    echo_reply(s, q, 129, true, &mut bad);
                } else if q.ty == 135 && q.code == 0 {
                    if q.rest_len < 20 {
                        t.any("neighbour-solicitation-truncated");
                        continue;
                    }
                    let mut tg = [0u8; 16];
                    tg.copy_from_slice(&s.raw[q.rest_off + 4..q.rest_off + 20]);
                    let target: std::net::Ipv6Addr = tg.into();
                    if !cfg.handles(&IpAddr::V6(target)) {
                        t.judged(Verdict::Silent, "icmp6|ns|target-not-handled".into());
                        if s.reply.is_some() {
                            bad("ns-foreign-target", "ns-foreign-target-answered".into(), format!("neighbour solicitation for {}, not a handled address, was answered", target));
                        }
                        continue;
                    }
                    t.judged(Verdict::Reply, format!("icmp6|ns|handled|opts{}", size_class(q.rest_len - 20)));
                    match (&s.reply, &s.reply_raw) {
                        (Some(r), Some(rr)) => match &r.l4 {
                            L4::Icmp6(ri) => {
                                let body = &rr[ri.rest_off..ri.rest_off + ri.rest_len];
                                // Solicited and Override set, target echoed, and among the options a Target
                                // Link-Layer Address (type 2, length 1) holding the configured MAC
                                let mut tlla = false;
                                let mut opts_ok = body.len() >= 20;
                                let mut i = 20;
                                while opts_ok && i < body.len() {
                                    if i + 2 > body.len() || body[i + 1] == 0 || i + body[i + 1] as usize * 8 > body.len() {
                                        opts_ok = false;
                                        break;
                                    }
                                    let l = body[i + 1] as usize * 8;
                                    if body[i] == 2 && l == 8 && body[i + 2..i + 8] == cfg.mac {
                                        tlla = true;
                                    }
                                    i += l;
                                }
                                let ok = ri.ty == 136
                                    && ri.code == 0
                                    && opts_ok
                                    && body[0] & 0x60 == 0x60
                                    && body[4..20] == tg
                                    && tlla;
                                if !ok {
                                    bad("na-fields", "na-fields".into(), format!("neighbour advertisement type {} code {} body {} does not advertise {} at the configured MAC with S and O set", ri.ty, ri.code, hex(body), target));
                                }
                            }
                            _ => bad("na-kind", "na-kind".into(), "neighbour solicitation answered with a non-ICMPv6 frame".into()),
                        },
                        _ => bad("ns-unanswered", "ns-unanswered".into(), format!("neighbour solicitation for handled address {} was not answered", target)),
                    }
                } else {
                    t.judged(
                        Verdict::Silent,
                        format!("icmp6|type{}|code{}", q.ty, if q.code == 0 { "0" } else { "nz" }),
                    );
                    if s.reply.is_some() {
                        bad("icmp6-other", format!("icmp6-answered:type{}:code{}", q.ty, if q.code == 0 { "0" } else { "nz" }), format!("ICMPv6 type {} code {} was answered", q.ty, q.code));
                    }
                }
            }
            _ => {}
        }
    }
    v
}

fn echo_reply(
    s: &crate::model::StepInfo,
    q: &IcmpH,
    reply_type: u8,
    v6: bool,
    bad: &mut dyn FnMut(&str, String, String),
) {
    let fam = if v6 { "echo6" } else { "echo4" };
    match (&s.reply, &s.reply_raw) {
        (Some(r), Some(rr)) => {
            let ri = match (&r.l4, v6) {
                (L4::Icmp4(i), false) => i,
                (L4::Icmp6(i), true) => i,
                _ => {
                    bad("echo-kind", format!("{}-kind", fam), "echo request answered with another protocol".into());
                    return;
                }
            };
            let qrest = &s.raw[q.rest_off..q.rest_off + q.rest_len];
            let rrest = &rr[ri.rest_off..ri.rest_off + ri.rest_len];
            if ri.ty != reply_type || ri.code != 0 {
                bad("echo-type", format!("{}-type", fam), format!("echo reply has type {} code {}", ri.ty, ri.code));
            }
            if qrest != rrest {
                bad(
                    "echo-data",
                    format!("{}-data", fam),
                    format!("echo reply identifier/sequence/data ({} bytes) differ from the request's ({} bytes)", rrest.len(), qrest.len()),
                );
            }
        }
        _ => bad("echo-unanswered", format!("{}-unanswered", fam), "code-0 echo request to a handled address was not answered".into()),
    }
}
