//! C15 - STUN: binding requests get a success response reflecting the observed address.

use std::net::IpAddr;

use crate::apps::sig::{self, Decision};
use crate::apps::stun;
use crate::apps::App;
use crate::model::Analysis;
use crate::oracle::{Aux, Tally, Verdict, Violation};

struct Case<'a> {
    payload: &'a [u8],
    reply: Option<&'a [u8]>,
    reply_sport: Option<u16>,
    src: IpAddr,
    sport: u16,
    dport: u16,
    datagram: bool,
    carrier: String,
    idx: usize,
}

fn judge(c: &Case, sigs: &[sig::Sig], t: &mut Tally, v: &mut Vec<Violation>) {
    let m = match stun::parse(c.payload) {
        Some(m) => m,
        None => return,
    };
    if c.payload[0] & 0xc0 != 0 {
        return; // not STUN-shaped at all
    }
    let mut bad = |rule: &str, key: String, detail: String| {
        v.push(Violation {
            prop: "C15",
            rule: rule.into(),
            key,
            step: c.idx,
            detail,
        });
    };
    let d = sig::decide(sigs, c.payload, c.datagram);
    let identified = matches!(&d, Decision::Match { sig, .. } if sigs[*sig].app == App::Stun);
    if !m.is_binding_request() {
        return; // other classes / methods are judged by `judge_other` on identified flows
    }
    if !identified {
        if d == Decision::NoMatch && c.datagram && !m.magic {
            t.any("cookie-less-request-outside-the-two-published-forms");
        } else if d == Decision::Ambiguous {
            t.any("two-signatures-complete-together");
        }
        return;
    }
    // Requests whose length field or TLVs are inconsistent, or with a CHANGE-REQUEST of another
    // size than 4: whether they are answered, and from which port, is not judged - but if a
    // STUN response comes back, it must still be the right one (same id, observed address).
    let mut strict = true;
    if !m.len_matches || !m.tiles {
        t.any("length-or-tlvs-inconsistent");
        strict = false;
    } else if m.odd_change_requests() > 0 {
        t.any("change-request-of-odd-size");
        strict = false;
    }
    if !strict {
        match c.reply.and_then(stun::parse) {
            Some(rm) if rm.ty == 0x0101 && c.reply.map(|r| r.len() >= 20).unwrap_or(false) => {
                t.probe("malformed-request-answered-response-checked");
            }
            _ => return,
        }
    }
    let cp = m.change_port_count();
    let signame = match &d {
        Decision::Match { sig, .. } => sigs[*sig].name,
        _ => "?",
    };
    t.judged(
        Verdict::Reply,
        format!(
            "{}|{}|attrs{}{}|cp{}|sport{}{}",
            c.carrier,
            signame,
            m.attrs.len().min(3),
            if m.attrs.iter().any(|(_, val)| val.len() % 4 != 0) { "+padded" } else { "" },
            cp.min(2),
            if c.sport == 65535 { "max" } else { "-" },
            if strict { "" } else { "|malformed" }
        ),
    );
    if c.sport == 65535 {
        t.probe("source-port-65535");
    }
    let r = match c.reply {
        Some(r) if !r.is_empty() => r,
        _ => {
            let why = if m.attrs.iter().any(|(_, val)| val.len() % 4 != 0) {
                "attribute-length-not-multiple-of-4"
            } else if m.magic && c.payload[2] == 0 {
                "rfc5389-length-below-256"
            } else {
                "other"
            };
            bad(
                "unanswered",
                format!("unanswered:{}:{}", signame, why),
                format!("binding request ({} form, {} attribute bytes) over {} was not answered", signame, m.len, c.carrier),
            );
            return;
        }
    };
    let rm = match stun::parse(r) {
        Some(rm) => rm,
        None => {
            bad("response-shape", "response-shape".into(), format!("reply of {} bytes is not a STUN message", r.len()));
            return;
        }
    };
    if rm.ty != 0x0101 {
        bad("response-type", "response-type".into(), format!("response type {:#06x}, expected Binding Success 0x0101", rm.ty));
    }
    if rm.id != m.id {
        bad("transaction-id", "transaction-id".into(), "response carries another transaction id".into());
    }
    if !rm.len_matches {
        bad("response-length", "response-length".into(), format!("message length {} but {} bytes follow the header", rm.len, r.len() - 20));
    }
    match rm.attrs.iter().find(|(ty, _)| *ty == 1).and_then(|(_, val)| stun::mapped_address(val)) {
        Some((fam, port, addr)) => {
            let (wf, wa): (u8, Vec<u8>) = match c.src {
                IpAddr::V4(a) => (1, a.octets().to_vec()),
                IpAddr::V6(a) => (2, a.octets().to_vec()),
            };
            if fam != wf {
                bad("mapped-family", "mapped-family".into(), format!("MAPPED-ADDRESS family {} for a request from {}", fam, c.src));
            }
            if port != c.sport {
                bad("mapped-port", "mapped-port".into(), format!("MAPPED-ADDRESS port {}, the request came from port {}", port, c.sport));
            }
            if addr != wa {
                bad("mapped-address", "mapped-address".into(), format!("MAPPED-ADDRESS {:?}, the request came from {}", addr, c.src));
            }
        }
        None => bad("mapped-missing", "mapped-missing".into(), "response without a decodable MAPPED-ADDRESS".into()),
    }
    if let (Some(rs), true) = (c.reply_sport, strict) {
        let want = if cp == 1 { c.dport.wrapping_add(1) } else { c.dport };
        if cp <= 1 && rs != want {
            bad("change-port", format!("change-port:{}", cp), format!("response sent from port {}, expected {} ({} change-port request)", rs, want, cp));
        }
        if cp == 1 && c.dport == 65535 {
            t.probe("change-port-from-65535");
        }
    }
}

/// A message of another class or method on a flow/datagram the responder treats as STUN
/// must not get a STUN response.
fn judge_other(payload: &[u8], reply: Option<&[u8]>, idx: usize, t: &mut Tally, v: &mut Vec<Violation>) {
    let m = match stun::parse(payload) {
        Some(m) if m.top_bits_zero && m.len_matches && m.tiles => m,
        _ => return,
    };
    if m.is_binding_request() {
        return;
    }
    t.judged(Verdict::Silent, format!("other|class{}|method{}", m.class, if m.method == 1 { "binding".into() } else { format!("{:#x}", m.method.min(0x200) & 0xf81) }));
    let stun_resp = reply
        .and_then(stun::parse)
        .map(|r| r.len_matches && (r.ty == 0x0101 || r.ty == 0x0111))
        .unwrap_or(false);
    if stun_resp {
        v.push(Violation {
            prop: "C15",
            rule: "non-request-answered".into(),
            key: format!("answered:class{}:{}", m.class, if m.method == 1 { "binding" } else { "other-method" }),
            step: idx,
            detail: format!("STUN message type {:#06x} (class {}, method {:#x}) drew a Binding Success Response", m.ty, m.class, m.method),
        });
    }
}

pub fn check(a: &Analysis, _aux: &mut Aux, t: &mut Tally) -> Vec<Violation> {
    let mut v = Vec::new();
    let sigs = sig::signatures();
    for x in a.udp_exchanges() {
        let s = &a.steps[x.si];
        let c = Case {
            payload: x.payload,
            reply: x.reply,
            reply_sport: s.reply.as_ref().and_then(|r| r.ports()).map(|p| p.0),
            src: x.src,
            sport: x.sport,
            dport: x.dport,
            datagram: true,
            carrier: format!("udp{}", if x.v6 { 6 } else { 4 }),
            idx: s.idx,
        };
        judge(&c, &sigs, t, &mut v);
        judge_other(x.payload, x.reply, s.idx, t, &mut v);
    }
    for st in a.tcp_streams() {
        if st.dirty || st.segs.is_empty() {
            continue;
        }
        let s0 = &st.segs[0];
        let p0 = &st.stream[..s0.len];
        let v6 = matches!(st.flow.src, IpAddr::V6(_));
        let whole = stun::parse(p0).map(|m| m.len_matches).unwrap_or(false);
        let stun_flow = matches!(sig::decide(&sigs, p0, false), Decision::Match { sig, .. } if sigs[sig].app == App::Stun);
        if whole {
            let s = &a.steps[s0.si];
            let c = Case {
                payload: p0,
                reply: s0.reply_app.as_deref(),
                reply_sport: s.reply.as_ref().and_then(|r| r.ports()).map(|p| p.0),
                src: st.flow.src,
                sport: st.flow.sport,
                dport: st.flow.dport,
                datagram: false,
                carrier: format!("tcp{}", if v6 { 6 } else { 4 }),
                idx: s.idx,
            };
            judge(&c, &sigs, t, &mut v);
        }
        if stun_flow {
            // later messages reach the STUN handler whatever they are
            for sg in st.segs.iter().skip(1) {
                let p = &st.stream[sg.off..sg.off + sg.len];
                judge_other(p, sg.reply_app.as_deref(), a.steps[sg.si].idx, t, &mut v);
                t.probe("second-message-on-stun-flow");
            }
        }
    }
    v
}
