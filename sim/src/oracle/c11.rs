//! C11 - placeholder, replaced below.
use crate::model::Analysis;
use crate::oracle::{Aux, Tally, Violation};

pub fn check(_a: &Analysis, _aux: &mut Aux, _t: &mut Tally) -> Vec<Violation> {
    Vec::new()
}
