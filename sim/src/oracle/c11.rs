//! C11 - stream parsing is independent of TCP segmentation (HTTP, ONC-RPC over TCP).
//!
//! Purely differential: the property relates segmentations to each other. For a judged flow
//! the same byte stream is delivered to a second node twice - whole in one segment, and as
//! "signature prefix, then one byte per segment" - which gives: answered?, the trigger byte b*
//! and the reply bytes R*. The flow's own composition must agree with both.

use crate::apps::http;
use crate::apps::sig::{self, Decision};
use crate::apps::App;
use crate::model::Analysis;
use crate::oracle::{aux_stream, Aux, Tally, Verdict, Violation};

/// The reply to the *first* request, comparable across deliveries: HTTP reduced to the first
/// response of the payload, with the Date masked;
/// ONC-RPC reduced to the record that answers the first call (a segment that completes several
/// pipelined calls may carry several replies, one record each, in any order).
fn norm(app: App, r: &[u8], stream: &[u8]) -> Vec<Vec<u8>> {
    if app == App::Http {
        // the first response of the payload (a segment that completes several pipelined requests
        // may carry several responses back to back)
        match http::first_response_len(r) {
            Some(l) => vec![http::mask_date(&r[..l])],
            None => vec![http::mask_date(r)],
        }
    } else {
        // the record answering the first call: one carrying its XID (the order of the records of
        // one payload is free, and a later call of the same payload may reuse the XID - then
        // every such record is a candidate), else the first record
        let xid = if stream.len() >= 8 { Some(&stream[4..8]) } else { None };
        let mut at = 0;
        let mut first: Option<&[u8]> = None;
        let mut cands: Vec<Vec<u8>> = Vec::new();
        while at + 4 <= r.len() {
            let l = (u32::from_be_bytes([r[at] & 0x7f, r[at + 1], r[at + 2], r[at + 3]]) as usize).saturating_add(4);
            if l > r.len() - at {
                break;
            }
            let rec = &r[at..at + l];
            if first.is_none() {
                first = Some(rec);
            }
            if rec.len() >= 8 && Some(&rec[4..8]) == xid {
                cands.push(rec.to_vec());
            }
            at += l;
        }
        if !cands.is_empty() {
            return cands;
        }
        match first {
            Some(rec) => vec![rec.to_vec()],
            None => vec![r.to_vec()],
        }
    }
}

/// Two payloads agree on the reply to the first request when they share a candidate.
fn same_first_reply(x: &[Vec<u8>], y: &[Vec<u8>]) -> bool {
    x.iter().any(|c| y.contains(c))
}

pub fn check(a: &Analysis, aux: &mut Aux, t: &mut Tally) -> Vec<Violation> {
    let mut v = Vec::new();
    if aux.samples == 0 {
        return v;
    }
    let sigs = sig::signatures();
    let cfg = &a.hist.config;
    let mut done = 0;
    let streams = a.tcp_streams();
    // deterministic rotation so that not always the first flows of a run are sampled
    let n = streams.len().max(1);
    let startk = (aux.pick as usize) % n;
    for q in 0..streams.len() {
        if done >= aux.samples {
            break;
        }
        let st = &streams[(startk + q) % n];
        if st.dirty || st.segs.is_empty() || st.cookie.is_none() || st.stream.is_empty() {
            continue;
        }
        let (app, siglen) = match sig::decide(&sigs, &st.stream, false) {
            Decision::Match { sig, at } if sigs[sig].app == App::Http || sigs[sig].name == "RPC:TCP" => (sigs[sig].app, at),
            _ => continue,
        };
        let first = &a.steps[st.segs[0].si];
        let eth = match &first.req.eth {
            Some(e) => e.clone(),
            None => continue,
        };
        // the judged prefix: up to 700 bytes (keeps the byte-wise baseline affordable)
        let lim = st.stream.len().min(700);
        // only whole segments of the flow are compared
        let mut segs_in: Vec<(usize, &Option<Vec<u8>>)> = Vec::new();
        for sg in &st.segs {
            if sg.off + sg.len <= lim {
                segs_in.push((sg.off + sg.len, &sg.reply_app));
            }
        }
        if segs_in.is_empty() {
            continue;
        }
        let lim = segs_in.last().unwrap().0;
        let stream = &st.stream[..lim];
        let cookie = st.cookie.unwrap();
        let clock = first.clock;
        done += 1;
        // baseline A: one segment
        let ra = match aux_stream(aux, cfg, clock, &st.flow, &eth.src, &eth.dst, cookie, stream, &[]) {
            Some(r) => r,
            None => {
                t.any("baseline-not-executable");
                continue;
            }
        };
        let a_app = ra.last().and_then(|x| x.1.clone()).unwrap_or_default();
        // baseline B: signature prefix, then byte by byte
        let cuts: Vec<usize> = (siglen.min(lim)..lim).collect();
        let rb = match aux_stream(aux, cfg, clock, &st.flow, &eth.src, &eth.dst, cookie, stream, &cuts) {
            Some(r) => r,
            None => {
                t.any("baseline-not-executable");
                continue;
            }
        };
        let trig_b = rb.iter().find(|x| x.1.as_ref().map(|p| !p.is_empty()).unwrap_or(false));
        let (bstar, r_b) = match trig_b {
            Some((end, Some(p))) => (Some(*end), p.clone()),
            _ => (None, Vec::new()),
        };
        let proto = if app == App::Http { "http" } else { "rpc" };
        let cut_in_sig = st.segs[0].len < siglen;
        let mut bad = |rule: &str, key: String, step: usize, detail: String| {
            v.push(Violation {
                prop: "C11",
                rule: rule.into(),
                key,
                step,
                detail,
            });
        };
        // the two baselines must agree with each other
        let a_answered = !a_app.is_empty();
        if a_answered != bstar.is_some() {
            bad(
                "baselines-disagree",
                format!("baselines-answered:{}", proto),
                first.idx,
                format!("the {}-byte {} stream is {} when sent in one segment but {} when sent byte by byte after the signature", lim, proto, if a_answered { "answered" } else { "not answered" }, if bstar.is_some() { "answered" } else { "not answered" }),
            );
            continue;
        }
        if a_answered && !same_first_reply(&norm(app, &a_app, stream), &norm(app, &r_b, stream)) {
            bad("baselines-disagree", format!("baselines-content:{}", proto), first.idx, format!("reply content differs between the one-segment and the byte-wise delivery of the same {} stream", proto));
            continue;
        }
        // the flow's own composition
        let own_trig = segs_in.iter().position(|x| x.1.as_ref().map(|p| !p.is_empty()).unwrap_or(false));
        t.judged(
            if bstar.is_some() { Verdict::Reply } else { Verdict::Silent },
            format!(
                "{}|segs{}|cutinsig{}|{}",
                proto,
                segs_in.len().min(6),
                cut_in_sig as u8,
                match bstar {
                    Some(b) if b == lim => "trigger-at-end",
                    Some(_) => "trigger-inside",
                    None => "never",
                }
            ),
        );
        if cut_in_sig {
            t.probe("cut-inside-signature");
        }
        if segs_in.len() == lim {
            t.probe("byte-wise-composition");
        }
        match bstar {
            None => {
                if let Some(k) = own_trig {
                    bad("answered", format!("answered-only-when-segmented:{}", proto), a.steps[st.segs[k].si].idx, format!("segment {} of the flow drew a reply although the same stream is never answered in the baselines", k));
                }
            }
            Some(b) => {
                // segment containing stream byte b-1
                let want = segs_in.iter().position(|x| x.0 >= b).unwrap();
                match own_trig {
                    None => bad(
                        "unanswered",
                        if cut_in_sig { format!("cut-inside-signature:{}", proto) } else { format!("unanswered-when-segmented:{}", proto) },
                        a.steps[st.segs[want].si].idx,
                        format!("the {} request completes at stream byte {} (segment {}) but this composition ({} segments, first {} bytes{}) was never answered", proto, b, want, segs_in.len(), st.segs[0].len, if cut_in_sig { ", cut inside the signature" } else { "" }),
                    ),
                    Some(k) if k != want => bad(
                        "trigger",
                        format!("trigger-moved:{}:{}", proto, if k < want { "early" } else { "late" }),
                        a.steps[st.segs[k].si].idx,
                        format!("reply carried by segment {} (ends at byte {}), the request completes at byte {} in segment {}", k, segs_in[k].0, b, want),
                    ),
                    Some(k) => {
                        let own = segs_in[k].1.as_ref().unwrap();
                        if !same_first_reply(&norm(app, own, stream), &norm(app, &a_app, stream)) {
                            bad("content", format!("content-depends-on-segmentation:{}", proto), a.steps[st.segs[k].si].idx, "reply content differs from the one-segment delivery of the same stream".into());
                        }
                    }
                }
            }
        }
    }
    v
}
