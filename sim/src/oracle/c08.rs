//! C08 - flows do not interfere: a reply depends only on the frame and its own flow.
//!
//! Decided literally: for sampled frames f of a finished run with history h,
//! a second node replays h restricted to the data segments accepted earlier on
//! f's own flow (same restart epoch), then f, with the same clock values; the
//! two replies must be byte-identical.

use crate::exec::Step;
use crate::model::{Analysis, DataVerdict, TcpClass};
use crate::oracle::c01::layer_path;
use crate::oracle::{Aux, Tally, Verdict, Violation};

pub fn check(a: &Analysis, aux: &mut Aux, t: &mut Tally) -> Vec<Violation> {
    let mut v = Vec::new();
    if a.steps.is_empty() || aux.samples == 0 || a.hist.death.is_some() {
        return v;
    }
    // candidate frames: everything; prefer frames whose outcome depends on state
    let n = a.steps.len();
    let mut order: Vec<usize> = (0..n).collect();
    // deterministic shuffle from the run's selector
    let mut x = aux.pick | 1;
    for i in (1..n).rev() {
        x ^= x << 13;
        x ^= x >> 7;
        x ^= x << 17;
        let j = (x % (i as u64 + 1)) as usize;
        order.swap(i, j);
    }
    // application payloads that were delivered before on another tuple: the frames most likely to
    // show state that is shared under too small a key
    let mut seen: std::collections::BTreeMap<&[u8], Vec<usize>> = std::collections::BTreeMap::new();
    let mut repeat = vec![false; n];
    for (i, s) in a.steps.iter().enumerate() {
        if let Some(pl) = app_payload(s) {
            if pl.len() >= 8 {
                let e = seen.entry(pl).or_default();
                if e.iter().any(|j| tuple_of(&a.steps[*j]) != tuple_of(s)) {
                    repeat[i] = true;
                    t.probe("payload-seen-before-on-another-tuple");
                }
                e.push(i);
            }
        }
    }
    // stable partition: data segments that continue a connection (their answer depends on the
    // connection's earlier segments, i.e. on state the responder must have kept), repeated payloads,
    // other TCP data, then the rest
    let class_of = |i: usize| -> u8 {
        match &a.steps[i].tcp {
            Some(ti) if ti.class == TcpClass::Data && ti.accepted_before > 0 && !repeat[i] => 0,
            _ if repeat[i] => 1,
            Some(ti) if ti.class == TcpClass::Data => 2,
            Some(_) => 3,
            None => 4,
        }
    };
    order.sort_by_key(|i| class_of(*i));
    // at most a third of the budget each for the first two classes; long histories (a mass scan
    // took place) get a larger budget, spent on the segments that continue a connection
    let third = (aux.samples / 3).max(1);
    let extra0 = if n > 1000 { 24 } else { 0 };
    aux_extra(aux, extra0);
    for cl in [0u8, 1] {
        let third = if cl == 0 { third + extra0 } else { third };
        let start = order.iter().position(|i| class_of(*i) == cl);
        if let Some(st) = start {
            let cnt = order[st..].iter().take_while(|i| class_of(**i) == cl).count();
            if cnt > third {
                let extra: Vec<usize> = order.drain(st + third..st + cnt).collect();
                order.extend(extra);
            }
        }
    }
    let mut done = 0;
    for si in order {
        if done >= aux.samples {
            break;
        }
        let s = &a.steps[si];
        // histories in which the model lost track (odd carriers that may or may not have been
        // processed) cannot be restricted reliably
        let mut own: Vec<usize> = Vec::new();
        let mut collision = false;
        if let Some(ti) = &s.tcp {
            if a.dirty_flows.contains(&ti.flow) {
                t.any("flow-received-data-over-odd-carrier");
                continue;
            }
            match ti.data {
                Some(DataVerdict::Unknown) => {
                    t.any("cookie-of-flow-never-observed");
                    continue;
                }
                Some(DataVerdict::Collision) | Some(DataVerdict::CollisionValidated) => collision = true,
                _ => {}
            }
            if ti.class == TcpClass::Data {
                for (pi, p) in a.steps[..si].iter().enumerate() {
                    if p.epoch != s.epoch {
                        continue;
                    }
                    if let Some(pt) = &p.tcp {
                        if pt.flow == ti.flow
                            && matches!(pt.data, Some(DataVerdict::Validates) | Some(DataVerdict::Established))
                        {
                            own.push(pi);
                        }
                    }
                }
            }
        } else if !s.carrier.clean() && s.req.tcp().is_some() && s.carrier.out.is_none() {
            t.any("tcp-over-odd-carrier");
            continue;
        }
        let mut steps = Vec::new();
        for pi in &own {
            steps.push(Step::Clock(a.steps[*pi].clock));
            steps.push(Step::Frame(a.steps[*pi].raw.clone()));
        }
        steps.push(Step::Clock(s.clock));
        steps.push(Step::Frame(s.raw.clone()));
        done += 1;
        let h2 = match aux.exec.run(&a.hist.config, a.hist.start_ms, &aux.nonce, &steps) {
            Ok(h) => h,
            Err(e) => {
                aux.harness_error = Some(format!("{:?}", e));
                return v;
            }
        };
        if h2.death.is_some() {
            // a crash is C01's finding, not an interference
            t.any("isolated-replay-crashed");
            continue;
        }
        let iso = h2.recs.last().and_then(|r| r.obs.as_ref()).and_then(|o| o.reply.clone());
        let others = si - own.len();
        t.judged(
            if iso.is_some() { Verdict::Reply } else { Verdict::Silent },
            format!(
                "{}|own{}|others{}|{}",
                match &s.tcp {
                    Some(ti) => format!("{:?}/{:?}", ti.class, ti.data),
                    None => layer_path(&s.req),
                },
                own.len().min(4),
                match others {
                    0 => "0",
                    1..=9 => "few",
                    _ => "many",
                },
                if iso.is_some() { "reply" } else { "silence" }
            ),
        );
        if s.epoch > 0 {
            t.probe("sampled-after-restart");
        }
        if iso != s.reply_raw {
            let what = match (&s.reply_raw, &iso) {
                (Some(_), None) => "answered in the full history, silent in isolation",
                (None, Some(_)) => "silent in the full history, answered in isolation",
                _ => "answered differently",
            };
            v.push(Violation {
                prop: "C08",
                rule: "restriction-replay".into(),
                key: if collision {
                    // which flow already holds the table entry with the same cookie?
                    let other = s.tcp.as_ref().and_then(|ti| {
                        a.steps[..si].iter().rev().find_map(|p| {
                            p.tcp.as_ref().filter(|pt| pt.flow != ti.flow && pt.cookie == ti.cookie && p.validates).map(|pt| pt.flow.clone())
                        })
                    });
                    let related = match (&s.tcp, &other) {
                        (Some(ti), Some(o)) => {
                            let f = &ti.flow;
                            [f.src != o.src, f.dst != o.dst, f.sport != o.sport, f.dport != o.dport].iter().filter(|b| **b).count() <= 1
                        }
                        _ => true,
                    };
                    // two unrelated tuples with equal 32-bit cookies are the 2^-32 birthday event the
                    // design accepts knowingly; tuples differing in one component point at a weak hash
                    if related { "cookie-collision:related-tuples".into() } else { "cookie-collision:unrelated-tuples".into() }
                } else {
                    format!(
                        "interference:{}",
                        match &s.tcp {
                            Some(ti) => format!("{:?}", ti.class),
                            None => layer_path(&s.req),
                        }
                    )
                },
                step: s.idx,
                detail: format!(
                    "frame {} is {} (own-flow prefix of {} segments, {} other frames before it)",
                    s.idx,
                    what,
                    own.len(),
                    others
                ),
            });
        }
    }
    v
}

/// Raise the sample budget of this judgement (never above what the scenario allows for replays).
fn aux_extra(aux: &mut Aux, extra: usize) {
    if extra > 0 && aux.samples < 1000 {
        aux.samples += extra;
    }
}

fn app_payload(s: &crate::model::StepInfo) -> Option<&[u8]> {
    use crate::wire::L4;
    match &s.req.l4 {
        L4::Tcp(t) if t.pay_len > 0 && t.pay_off + t.pay_len <= s.raw.len() => Some(&s.raw[t.pay_off..t.pay_off + t.pay_len]),
        L4::Udp(u) if u.pay_len > 0 && u.pay_off + u.pay_len <= s.raw.len() => Some(&s.raw[u.pay_off..u.pay_off + u.pay_len]),
        _ => None,
    }
}

fn tuple_of(s: &crate::model::StepInfo) -> (Option<std::net::IpAddr>, Option<std::net::IpAddr>, u16, u16) {
    use crate::wire::L4;
    let (sp, dp) = match &s.req.l4 {
        L4::Tcp(t) => (t.sport, t.dport),
        L4::Udp(u) => (u.sport, u.dport),
        _ => (0, 0),
    };
    (s.req.ip_src(), s.req.ip_dst(), sp, dp)
}
