//! C20 - the event log is a faithful, balanced account of every frame.

use std::collections::BTreeMap;

use crate::model::Analysis;
use crate::node::LoggerKind;
use crate::oracle::c01::layer_path;
use crate::oracle::{Aux, Tally, Verdict, Violation};
use crate::wire::*;

#[derive(Debug, Clone)]
struct Event {
    proto: String,
    verb: String,
    f: BTreeMap<&'static str, String>,
}

const PROTOS: [&str; 8] = ["arp", "eth", "ipv4", "ipv6", "icmpv4", "icmpv6", "tcp", "udp"];

/// The statement does not fix the timestamp's format: any non-empty token (digits with a
/// fraction, RFC 3339, ...) that cannot be confused with a separator is a timestamp.
fn ts_ok(s: &str) -> bool {
    !s.is_empty() && s.len() <= 64 && s.bytes().all(|c| c.is_ascii_graphic() && c != b'=' && c != b'"') && s.bytes().any(|c| c.is_ascii_digit())
}

fn word_ok(s: &str) -> bool {
    !s.is_empty() && s.len() <= 32 && s.bytes().all(|c| c.is_ascii_alphanumeric() || c == b'_' || c == b'-')
}

fn parse_console(l: &str) -> Result<Event, String> {
    let c: Vec<&str> = l.split('\t').collect();
    if c.len() < 3 {
        return Err(format!("only {} columns", c.len()));
    }
    if !ts_ok(c[0]) {
        return Err(format!("timestamp {:?}", c[0]));
    }
    if !["recv", "send", "drop"].contains(&c[2]) {
        // a line that is no event of a layer (start-up information and the like): complete when
        // it names what it is about
        if word_ok(c[1]) && word_ok(c[2]) {
            return Ok(Event { proto: c[1].to_string(), verb: c[2].to_string(), f: BTreeMap::new() });
        }
        return Err(format!("verb column {:?}", c[2]));
    }
    if !PROTOS.contains(&c[1]) {
        return Err(format!("protocol column {:?}", c[1]));
    }
    let want = match c[1] {
        "arp" => 8,
        "eth" | "ipv4" | "ipv6" | "udp" => 11,
        "icmpv4" | "icmpv6" => 12,
        _ => 13,
    };
    if c.len() < want {
        return Err(format!("{} columns for a {} event, expected at least {}", c.len(), c[1], want));
    }
    let mut f = BTreeMap::new();
    if c[1] == "arp" {
        f.insert("mac_src", c[3].to_string());
        f.insert("mac_dst", c[4].to_string());
        f.insert("ip_src", c[5].to_string());
        f.insert("ip_dst", c[6].to_string());
        if c[7].is_empty() {
            return Err("empty ARP operation column".into());
        }
    } else {
        for (k, i) in [("mac_src", 3), ("mac_dst", 4), ("ip_src", 5), ("ip_dst", 6), ("transport", 7), ("port_src", 8), ("port_dst", 9)] {
            if !c[i].is_empty() {
                f.insert(k, c[i].to_string());
            }
        }
        if c[1] != "udp" && c[10..want].iter().any(|x| x.is_empty()) {
            return Err("empty protocol-specific column".into());
        }
    }
    Ok(Event {
        proto: c[1].to_string(),
        verb: c[2].to_string(),
        f,
    })
}

fn parse_logfmt(l: &str) -> Result<Event, String> {
    let mut f = BTreeMap::new();
    let mut proto = None;
    let mut verb = None;
    let mut ts = None;
    for tok in l.split(' ').filter(|t| !t.is_empty()) {
        let eq = match tok.find('=') {
            Some(e) if e > 0 => e,
            _ => return Err(format!("token {:?} is not key=value", tok)),
        };
        let (k, val) = (&tok[..eq], &tok[eq + 1..]);
        if val.is_empty() {
            return Err(format!("empty value for {}", k));
        }
        match k {
            "ts" => ts = Some(val.to_string()),
            "proto" => proto = Some(val.to_string()),
            "verb" => verb = Some(val.to_string()),
            "mac_src" => {
                f.insert("mac_src", val.to_string());
            }
            "mac_dst" => {
                f.insert("mac_dst", val.to_string());
            }
            "ip_src" => {
                f.insert("ip_src", val.to_string());
            }
            "ip_dst" => {
                f.insert("ip_dst", val.to_string());
            }
            "transport" => {
                f.insert("transport", val.to_string());
            }
            "port_src" => {
                f.insert("port_src", val.to_string());
            }
            "port_dst" => {
                f.insert("port_dst", val.to_string());
            }
            _ => {}
        }
    }
    let (ts, proto, verb) = match (ts, proto, verb) {
        (Some(a), Some(b), Some(c)) => (a, b, c),
        _ => return Err("ts/proto/verb missing".into()),
    };
    if !ts_ok(&ts) {
        return Err(format!("timestamp {:?}", ts));
    }
    if !["recv", "send", "drop"].contains(&verb.as_str()) {
        if word_ok(&proto) && word_ok(&verb) {
            return Ok(Event { proto, verb, f: BTreeMap::new() });
        }
        return Err(format!("verb {:?}", verb));
    }
    if !PROTOS.contains(&proto.as_str()) {
        return Err(format!("proto {:?}", proto));
    }
    Ok(Event { proto, verb, f })
}

pub fn check(a: &Analysis, _aux: &mut Aux, t: &mut Tally) -> Vec<Violation> {
    let mut v = Vec::new();
    let kind = a.hist.config.logger;
    if kind == LoggerKind::None {
        return v;
    }
    let fmt = kind.as_str();
    for s in &a.steps {
        let logs = match a.hist.recs[s.idx].obs.as_ref() {
            Some(o) => &o.logs,
            None => continue,
        };
        let path = layer_path(&s.req);
        let mut bad = |rule: &str, key: String, detail: String| {
            v.push(Violation {
                prop: "C20",
                rule: rule.into(),
                key,
                step: s.idx,
                detail,
            });
        };
        // 1. every line is syntactically complete
        let mut evs: Vec<Event> = Vec::new();
        let mut syntax_ok = true;
        for l in logs {
            let r = if kind == LoggerKind::Console { parse_console(l) } else { parse_logfmt(l) };
            match r {
                Ok(e) => evs.push(e),
                Err(e) => {
                    syntax_ok = false;
                    bad("line-syntax", format!("line-syntax:{}", fmt), format!("{} line {:?}: {}", fmt, l, e));
                }
            }
        }
        if !syntax_ok {
            continue;
        }
        // lines that are no recv / send / drop event (start-up information ...) are no part of the
        // account of the frame
        let others = evs.iter().filter(|e| !["recv", "send", "drop"].contains(&e.verb.as_str())).count();
        if others > 0 {
            t.probe("log-lines-that-are-no-event");
            evs.retain(|e| ["recv", "send", "drop"].contains(&e.verb.as_str()));
        }
        let shape: Vec<String> = evs.iter().map(|e| format!("{}:{}", e.proto, &e.verb[..1])).collect();
        t.judged(
            if s.reply.is_some() { Verdict::Reply } else { Verdict::Silent },
            format!("{}|{}|{}", fmt, path, shape.join(",")),
        );
        if s.req.eth.is_none() {
            // nothing can be said about a frame without an Ethernet header, except that nothing may claim a send
            if evs.iter().any(|e| e.verb == "send") {
                bad("send-without-reply", "send-without-reply".into(), "send event for a frame without Ethernet header".into());
            }
            continue;
        }
        // 2. balance and nesting
        let mut stack: Vec<&str> = Vec::new();
        let mut seen: Vec<&str> = Vec::new();
        let mut terminal: BTreeMap<&str, &str> = BTreeMap::new();
        let mut nest_ok = true;
        for e in &evs {
            let p = e.proto.as_str();
            if e.verb == "recv" {
                if seen.contains(&p) {
                    bad("duplicate-recv", format!("duplicate-recv:{}", p), format!("two recv events for layer {} ({})", p, shape.join(",")));
                    nest_ok = false;
                    break;
                }
                seen.push(p);
                stack.push(p);
            } else {
                if terminal.contains_key(p) {
                    bad("duplicate-terminal", format!("duplicate-terminal:{}", p), format!("two terminal events for layer {} ({})", p, shape.join(",")));
                    nest_ok = false;
                    break;
                }
                match stack.last() {
                    Some(top) if *top == p => {
                        stack.pop();
                        terminal.insert(p, e.verb.as_str());
                    }
                    _ => {
                        bad("nesting", format!("nesting:{}", p), format!("terminal event of layer {} while {:?} is open ({})", p, stack.last(), shape.join(",")));
                        nest_ok = false;
                        break;
                    }
                }
            }
        }
        if !nest_ok {
            continue;
        }
        if let Some(open) = stack.last() {
            bad("missing-terminal", format!("missing-terminal:{}", open), format!("layer {} has a recv event but no send/drop ({})", open, shape.join(",")));
            continue;
        }
        if seen.first() != Some(&"eth") {
            bad("missing-eth", "missing-eth-recv".into(), format!("first event is not the Ethernet recv ({})", shape.join(",")));
            continue;
        }
        // order of layers: eth, then arp | ipv4 | ipv6, then the transport
        let rank = |p: &str| match p {
            "eth" => 0,
            "arp" | "ipv4" | "ipv6" => 1,
            _ => 2,
        };
        if seen.windows(2).any(|w| rank(w[0]) >= rank(w[1])) {
            bad("layer-order", "layer-order".into(), format!("layers logged out of order ({})", shape.join(",")));
        }
        // 3. the Ethernet terminal event says what happened
        let eth_term = terminal.get("eth").copied().unwrap_or("");
        if (eth_term == "send") != s.reply.is_some() {
            bad(
                "eth-terminal",
                format!("eth-terminal:{}:{}", eth_term, if s.reply.is_some() { "reply" } else { "silence" }),
                format!("Ethernet terminal event is {:?} but {}", eth_term, if s.reply.is_some() { "a reply was emitted" } else { "no reply was emitted" }),
            );
        }
        // 4. printed addresses and ports are those of the frame
        let eth = s.req.eth.as_ref().unwrap();
        let want_ms = mac_str(&eth.src);
        let want_md = mac_str(&eth.dst);
        let ips = s.req.ip_src();
        let ipd = s.req.ip_dst();
        let ports = s.req.ports();
        let stun_rewrite = s
            .reply
            .as_ref()
            .and_then(|r| r.ports())
            .zip(ports)
            .map(|((rs, _), (_, qd))| rs != qd)
            .unwrap_or(false);
        for e in &evs {
            if e.proto == "arp" {
                if let L3::Arp(q) = &s.req.l3 {
                    // arp lines print the ARP header's own address pairs
                    let (sha, tha) = (mac_str(&q.f.sha), mac_str(&q.f.tha));
                    let (spa, tpa) = (std::net::Ipv4Addr::from(q.f.spa).to_string(), std::net::Ipv4Addr::from(q.f.tpa).to_string());
                    let got = (e.f.get("mac_src"), e.f.get("mac_dst"), e.f.get("ip_src"), e.f.get("ip_dst"));
                    let want = (Some(&sha), Some(&tha), Some(&spa), Some(&tpa));
                    // a send event describes the reply: (own MAC, requested address) and the
                    // requester's pair, in either orientation
                    let own = mac_str(&a.hist.config.mac);
                    let send_ok = e.verb == "send"
                        && (got == (Some(&own), Some(&sha), Some(&tpa), Some(&spa))
                            || got == (Some(&sha), Some(&own), Some(&spa), Some(&tpa)));
                    if got != want && !send_ok {
                        bad("fields", "fields:arp".into(), format!("arp {} event prints {:?}, the request holds {:?}", e.verb, got, want));
                    }
                }
                continue;
            }
            if e.f.get("mac_src") != Some(&want_ms) || e.f.get("mac_dst") != Some(&want_md) {
                bad("fields", format!("fields:mac:{}", e.proto), format!("{} {} event prints MACs {:?}/{:?}, the frame has {}/{}", e.proto, e.verb, e.f.get("mac_src"), e.f.get("mac_dst"), want_ms, want_md));
            }
            for (k, want) in [("ip_src", ips), ("ip_dst", ipd)] {
                if let Some(got) = e.f.get(k) {
                    let ok = match (got.parse::<std::net::IpAddr>(), want) {
                        (Ok(g), Some(w)) => g == w,
                        _ => false,
                    };
                    if !ok {
                        bad("fields", format!("fields:{}:{}", k, e.proto), format!("{} {} event prints {} {:?}, the frame has {:?}", e.proto, e.verb, k, got, want));
                    }
                } else if e.proto != "eth" || e.verb != "recv" {
                    if e.proto != "eth" && want.is_some() {
                        bad("fields", format!("fields:{}-missing:{}", k, e.proto), format!("{} {} event prints no {}", e.proto, e.verb, k));
                    }
                }
            }
            if matches!(e.proto.as_str(), "tcp" | "udp") {
                if let Some((qs, qd)) = ports {
                    if e.f.get("port_src").and_then(|x| x.parse::<u16>().ok()) != Some(qs) {
                        bad("fields", format!("fields:port_src:{}", e.proto), format!("{} {} event prints source port {:?}, the frame has {}", e.proto, e.verb, e.f.get("port_src"), qs));
                    }
                    let pd = e.f.get("port_dst").and_then(|x| x.parse::<u16>().ok());
                    if pd != Some(qd) {
                        if stun_rewrite && e.verb == "send" {
                            t.any("destination-port-after-stun-change-port");
                        } else {
                            bad("fields", format!("fields:port_dst:{}", e.proto), format!("{} {} event prints destination port {:?}, the frame has {}", e.proto, e.verb, e.f.get("port_dst"), qd));
                        }
                    }
                }
            }
        }
    }
    v
}
