//! C01 - no frame, history or configuration can crash the responder.
//! Oracle: the node process answered every delivered frame (reply or
//! silence) within the watchdog; no exit, no hang. If the run ends with a
//! plain in-scope ARP request (the canary the simulator appends after the
//! last fault), it was answered: "later traffic keeps being answered".

use crate::exec::Step;
use crate::model::Analysis;
use crate::oracle::{Aux, Tally, Verdict, Violation};
use crate::wire::*;

/// Extract "file:line" of a panic from the stderr tail.
pub fn panic_site(stderr: &str) -> String {
    if let Some(i) = stderr.find("panicked at ") {
        let rest = &stderr[i + 12..];
        let end = rest.find(|c: char| c == ' ' || c == '\n' || c == '|').unwrap_or(rest.len());
        let loc = rest[..end].trim_end_matches(':');
        // drop the column: file:line:col -> file:line
        let parts: Vec<&str> = loc.split(':').collect();
        if parts.len() >= 2 {
            // registry paths: keep the crate-relative tail
            let file = parts[0];
            let file = match file.rfind("/src/") {
                Some(p) if file.starts_with('/') => {
                    let pre = &file[..p];
                    let krate = pre.rsplit('/').next().unwrap_or("");
                    // drop the version suffix of registry crates: pnet_packet-0.33.0 -> pnet_packet
                    let krate = krate.split('-').next().unwrap_or(krate);
                    format!("{}{}", krate, &file[p..])
                }
                _ => file.to_string(),
            };
            return format!("{}:{}", file, parts[1]);
        }
        return loc.to_string();
    }
    "unknown".to_string()
}

pub fn check(a: &Analysis, _aux: &mut Aux, t: &mut Tally) -> Vec<Violation> {
    let mut v = Vec::new();
    let h = a.hist;
    for s in &a.steps {
        let sig = format!(
            "{}|{}|{}|lvl{}|{}|{}",
            layer_path(&s.req),
            if s.reply.is_some() { "reply" } else { "silence" },
            h.config.logger.as_str(),
            h.config.level,
            h.config.build.as_str(),
            if s.carrier.clean() { "clean" } else { "odd" }
        );
        t.judged(if s.reply.is_some() { Verdict::Reply } else { Verdict::Silent }, sig);
        if s.raw.len() < 14 {
            t.probe("frame-shorter-than-ethernet-header");
        }
    }
    if let Some((idx, d)) = &h.death {
        let site = panic_site(&d.stderr);
        let frame_len = match &h.recs[*idx].step {
            Step::Frame(f) => f.len(),
            _ => 0,
        };
        v.push(Violation {
            prop: "C01",
            rule: if d.kind == "hang" { "hang".into() } else { "crash".into() },
            key: format!("{}@{}", if d.kind == "hang" { "hang" } else { "panic" }, site),
            step: *idx,
            detail: format!(
                "node {} (status {:?}) while handling a {}-byte frame after {} earlier steps: {}",
                d.kind, d.status, frame_len, idx, d.stderr
            ),
        });
        return v;
    }
    // canary: last delivered frame
    if let Some(s) = a.steps.last() {
        if let L3::Arp(arp) = &s.req.l3 {
            let f = &arp.f;
            if s.carrier.clean() && f.op == 1 && f.htype == 1 && f.ptype == 0x0800 && f.hlen == 6 && f.plen == 4 {
                t.probe("canary-evaluated");
                if s.reply.is_none() {
                    v.push(Violation {
                        prop: "C01",
                        rule: "canary".into(),
                        key: "canary-unanswered".into(),
                        step: s.idx,
                        detail: "the closing ARP request for a handled address was not answered".into(),
                    });
                }
            }
        }
    }
    v
}

pub fn layer_path(p: &Pkt) -> String {
    let l3 = match &p.l3 {
        L3::NoEth => "noeth",
        L3::Other => "ethertype?",
        L3::Short => "l3short",
        L3::Arp(_) => "arp",
        L3::V4(_) => "ip4",
        L3::V6(_) => "ip6",
    };
    let l4 = match &p.l4 {
        L4::None => "",
        L4::Short => "/l4short",
        L4::Other => "/proto?",
        L4::Icmp4(_) => "/icmp",
        L4::Icmp6(_) => "/icmp6",
        L4::Tcp(_) => "/tcp",
        L4::Udp(_) => "/udp",
    };
    format!("{}{}", l3, l4)
}
