//! C02 - silence outside scope. Evaluated on every delivered frame of every
//! run, whatever other faults mangled it.

use std::net::IpAddr;

use crate::model::{Analysis, OutOfScope};
use crate::oracle::c01::layer_path;
use crate::oracle::{Aux, Tally, Verdict, Violation};
use crate::wire::*;

pub fn check(a: &Analysis, _aux: &mut Aux, t: &mut Tally) -> Vec<Violation> {
    let mut v = Vec::new();
    let cfg = &a.hist.config;
    for s in &a.steps {
        if let Some(reason) = &s.carrier.out {
            t.judged(
                Verdict::Silent,
                format!(
                    "{:?}|{}|S={}|D={}",
                    reason,
                    layer_path(&s.req),
                    cfg.self_ips.is_some(),
                    cfg.deny.is_some()
                ),
            );
            if *reason == OutOfScope::ForeignMac {
                if let Some(e) = &s.req.eth {
                    if a.auth.iter().any(|m| dist(m, &e.dst) == 1) {
                        t.probe("dst-mac-one-bit-off-an-authorised-mac");
                    }
                    if e.dst[0] == 0x01 && e.dst[1] == 0 && e.dst[2] == 0x5e {
                        t.probe("foreign-ipv4-multicast-mac");
                    }
                    if e.dst[0] == 0x33 && e.dst[1] == 0x33 {
                        t.probe("foreign-ipv6-multicast-mac");
                    }
                }
            }
            if s.reply.is_some() {
                v.push(Violation {
                    prop: "C02",
                    rule: "silence".into(),
                    key: format!("answered:{:?}:{}", reason, layer_path(&s.req)),
                    step: s.idx,
                    detail: format!("frame out of scope ({:?}) was answered", reason),
                });
            }
            continue;
        }
        // in scope: when a self-IP list is configured, the reply must come from it
        if let (Some(list), Some(rep)) = (&cfg.self_ips, &s.reply) {
            let mut advertised: Vec<(&str, IpAddr)> = Vec::new();
            if let Some(src) = rep.ip_src() {
                advertised.push(("source-ip", src));
            }
            if let L3::Arp(arp) = &rep.l3 {
                advertised.push(("arp-sender", IpAddr::V4(arp.f.spa.into())));
            }
            if let (L4::Icmp6(i), Some(raw)) = (&rep.l4, &s.reply_raw) {
                if i.ty == 136 && i.rest_len >= 20 {
                    let mut tg = [0u8; 16];
                    tg.copy_from_slice(&raw[i.rest_off + 4..i.rest_off + 20]);
                    advertised.push(("na-target", IpAddr::V6(tg.into())));
                }
            }
            for (what, ip) in advertised {
                t.judged(Verdict::Reply, format!("reply-{}-in-S|{}", what, layer_path(&s.req)));
                if !list.contains(&ip) {
                    v.push(Violation {
                        prop: "C02",
                        rule: "identity".into(),
                        key: format!("{}-not-handled:{}", what, layer_path(&s.req)),
                        step: s.idx,
                        detail: format!("reply {} {} is not in the configured self-IP list", what, ip),
                    });
                }
            }
        } else {
            t.any("in-scope-no-list-or-no-reply");
        }
    }
    v
}

fn dist(a: &Mac, b: &Mac) -> u32 {
    a.iter().zip(b.iter()).map(|(x, y)| (x ^ y).count_ones()).sum()
}
