//! C14 - DNS: IN/A queries get a faithful, parseable answer with the queried address.

use std::net::IpAddr;

use crate::apps::dns::{self, QueryClass};
use crate::apps::sig::{self, Decision};
use crate::model::Analysis;
use crate::oracle::{size_class, Aux, Tally, Verdict, Violation};

pub fn check(a: &Analysis, _aux: &mut Aux, t: &mut Tally) -> Vec<Violation> {
    let mut v = Vec::new();
    let sigs = sig::signatures();
    for x in a.udp_exchanges() {
        let dst4 = match x.dst {
            IpAddr::V4(d) if !x.v6 => d,
            _ => continue,
        };
        let idx = a.steps[x.si].idx;
        let class = dns::classify_query(x.payload);
        if matches!(class, QueryClass::Response) {
            continue; // C12
        }
        if sig::decide(&sigs, x.payload, true) != Decision::NoMatch {
            if matches!(class, QueryClass::InA(_)) {
                t.any("query-completes-another-signature");
            }
            continue;
        }
        let mut bad = |rule: &str, detail: String| {
            v.push(Violation {
                prop: "C14",
                rule: rule.into(),
                key: format!("dns:{}", rule),
                step: idx,
                detail,
            });
        };
        match class {
            QueryClass::InA(qs) => {
                let h = dns::header(x.payload).unwrap();
                let maxname = qs.iter().map(|q| q.name_wire.len()).max().unwrap_or(0);
                t.judged(
                    Verdict::Reply,
                    format!(
                        "in-a|qd{}|name{}|op{}|rd{}|flags{}",
                        qs.len().min(4),
                        size_class(maxname),
                        h.opcode().min(3),
                        h.rd() as u8,
                        (h.flags & 0x06ff != 0) as u8
                    ),
                );
                if maxname == 255 {
                    t.probe("name-of-255-bytes");
                }
                if qs.iter().any(|q| q.name_wire.len() > 1 && q.name_wire[0] == 63) {
                    t.probe("label-of-63-bytes");
                }
                let r = match x.reply {
                    Some(r) => r,
                    None => {
                        bad("unanswered", format!("IN/A query with {} question(s) to {} was not answered", qs.len(), dst4));
                        continue;
                    }
                };
                let m = match dns::decode(r) {
                    Ok(m) => m,
                    Err(e) => {
                        bad("unparseable", format!("response does not parse: {}", e));
                        continue;
                    }
                };
                if m.consumed != r.len() {
                    bad("trailing", format!("{} bytes follow the records announced by the section counts", r.len() - m.consumed));
                }
                if m.h.id != h.id {
                    bad("id", format!("response id {:#06x}, query id {:#06x}", m.h.id, h.id));
                }
                if !m.h.qr() {
                    bad("qr", "response has QR=0".into());
                }
                if m.h.opcode() != h.opcode() {
                    bad("opcode", format!("response opcode {}, query opcode {}", m.h.opcode(), h.opcode()));
                }
                if m.h.rd() != h.rd() {
                    bad("rd", format!("response RD {}, query RD {}", m.h.rd(), h.rd()));
                }
                let qsec = &x.payload[12..];
                if r.len() < 12 + qsec.len() || &r[12..12 + qsec.len()] != qsec {
                    bad("question-echo", "question section is not echoed byte for byte".into());
                }
                if m.answers.len() != qs.len() {
                    bad("answer-count", format!("{} answers for {} questions", m.answers.len(), qs.len()));
                }
                if !m.authority.is_empty() || !m.additional.is_empty() {
                    // allowed by the statement as long as the counts match; nothing to check
                }
                for (k, (q, an)) in qs.iter().zip(m.answers.iter()).enumerate() {
                    if an.name != q.name_wire {
                        bad("answer-owner", format!("answer {} is owned by another name than question {}", k, k));
                    }
                    if an.rtype != 1 || an.rclass != 1 {
                        bad("answer-type", format!("answer {} has type {} class {}", k, an.rtype, an.rclass));
                    }
                    if an.rdata != dst4.octets() {
                        bad("answer-rdata", format!("answer {} RDATA {:?}, the query was sent to {}", k, an.rdata, dst4));
                    }
                }
            }
            QueryClass::NotInA | QueryClass::Truncated => {
                let why = if class == QueryClass::NotInA { "not-in-a" } else { "truncated" };
                if x.payload.len() < 12 && why == "truncated" && x.payload.len() < 2 {
                    continue; // not recognisably DNS at all
                }
                t.judged(Verdict::Silent, format!("{}|{}", why, size_class(x.payload.len())));
                if x.reply.is_some() {
                    bad(&format!("answered-{}", why), format!("{} DNS message of {} bytes was answered", why, x.payload.len()));
                }
            }
            QueryClass::DontCare(w) => t.any(w),
            QueryClass::Response => {}
        }
    }
    v
}
