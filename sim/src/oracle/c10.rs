//! C10 - protocol identification is decided by leading bytes against the signature set.
//!
//! Reference: the published signatures with true wildcard semantics, first signature
//! completed (apps/sig.rs). Over UDP the decision is observed through which responder's reply
//! comes back; over TCP it is read directly from the node (guarded table probe) after every
//! segment of a replayed flow, whatever the handler then does with the bytes.

use crate::apps::sig::{self, identify_reply, Decision};
use crate::apps::{http, rpc, smb, ssh, stun, App};
use crate::model::Analysis;
use crate::oracle::{mk_tcp, Aux, Tally, Verdict, Violation};
use crate::wire::*;

/// Is `p` a complete valid request of the protocol of signature `s` (reference classifiers)?
fn valid_request(s: &sig::Sig, p: &[u8], tcp: bool) -> bool {
    match s.app {
        App::Http => matches!(http::classify(p), http::HttpClass::Complete { end, .. } if end == p.len()),
        App::Ssh => matches!(ssh::classify(p), ssh::SshClass::Complete { .. }),
        App::Ghost => true,
        App::Stun => stun::parse(p)
            .map(|m| m.is_binding_request() && m.len_matches && m.tiles && m.odd_change_requests() == 0)
            .unwrap_or(false),
        App::Rpc => {
            let body = if s.rpc_tcp_form {
                if p.len() < 4 || p[0] & 0x80 == 0 || (u32::from_be_bytes([p[0] & 0x7f, p[1], p[2], p[3]]) as usize) != p.len() - 4 {
                    return false;
                }
                &p[4..]
            } else {
                p
            };
            let _ = tcp;
            match rpc::parse_call(body) {
                (rpc::CallClass::Ok, Some(c)) => c.msg_type == 0 && c.rpcvers == 2 && rpc::in_portmap_range(c.prog) && c.proc_ <= 255,
                _ => false,
            }
        }
        App::Smb1 | App::Smb2 => match smb::classify(p) {
            smb::SmbClass::Smb1Negotiate { .. } | smb::SmbClass::Smb1SessionSetup | smb::SmbClass::Smb2SessionSetup => true,
            smb::SmbClass::Smb2Negotiate { dialects } => dialects.iter().any(|d| smb::SMB2_KNOWN.contains(d)),
            _ => false,
        },
        _ => false,
    }
}

fn family(a: App) -> App {
    a
}

pub fn check(a: &Analysis, aux: &mut Aux, t: &mut Tally) -> Vec<Violation> {
    let mut v = Vec::new();
    let sigs = sig::signatures();
    // ---- datagrams
    for x in a.udp_exchanges() {
        let idx = a.steps[x.si].idx;
        let d = sig::decide(&sigs, x.payload, true);
        let got = x.reply.and_then(identify_reply);
        match &d {
            Decision::Ambiguous => t.any("two-signatures-complete-together"),
            Decision::Pending => {}
            Decision::NoMatch => {
                t.judged(Verdict::Silent, format!("udp|nomatch|{}", match got { Some(App::Dns) => "dns", Some(_) => "sig", None => "silence" }));
                if let Some(g) = got {
                    if g != App::Dns {
                        v.push(Violation {
                            prop: "C10",
                            rule: "no-signature-answered".into(),
                            key: format!("no-signature-answered:{:?}", g),
                            step: idx,
                            detail: format!("payload {}.. completes no signature but was answered by the {:?} responder", hex(&x.payload[..x.payload.len().min(16)]), g),
                        });
                    }
                }
            }
            Decision::Match { sig: k, at } => {
                let s = &sigs[*k];
                let valid = valid_request(s, x.payload, false);
                t.judged(
                    if valid { Verdict::Reply } else { Verdict::Any },
                    format!("udp|{}|valid{}|{}", s.name, valid as u8, if got.is_some() { "reply" } else { "silence" }),
                );
                if s.end_anchored {
                    t.probe("end-anchored-signature-decides");
                }
                let _ = at;
                match got {
                    Some(g) if family(g) != family(s.app) => v.push(Violation {
                        prop: "C10",
                        rule: "wrong-responder".into(),
                        key: format!("wrong-responder:{}->{:?}", s.name, g),
                        step: idx,
                        detail: format!("leading bytes complete {} first, but the {:?} responder answered", s.name, g),
                    }),
                    None if valid => {
                        let why = match sig::shadow_explanation(&sigs, *k, x.payload) {
                            Some((pos, _, other)) => format!("shadowed@{}<-{}", pos, other.split(':').next().unwrap_or(other)),
                            None => "unexplained".into(),
                        };
                        v.push(Violation {
                            prop: "C10",
                            rule: "valid-request-not-served".into(),
                            key: format!("not-served:{}:{}", s.name, why),
                            step: idx,
                            detail: format!("complete valid request whose leading bytes complete {} was not answered by that responder [{}]", s.name, why),
                        });
                    }
                    _ => {}
                }
            }
        }
    }
    // ---- streams: replay sampled flows on the second node, probing the identified protocol
    if aux.samples == 0 {
        return v;
    }
    let cfg = &a.hist.config;
    let streams = a.tcp_streams();
    let n = streams.len().max(1);
    let startk = (aux.pick as usize) % n;
    let mut done = 0;
    for q in 0..streams.len() {
        if done >= aux.samples {
            break;
        }
        let st = &streams[(startk + q) % n];
        if st.dirty || st.segs.is_empty() || st.cookie.is_none() || st.stream.is_empty() {
            continue;
        }
        let first = &a.steps[st.segs[0].si];
        let eth = match &first.req.eth {
            Some(e) => e.clone(),
            None => continue,
        };
        let cookie = st.cookie.unwrap();
        done += 1;
        let nonce = aux.nonce.clone();
        let node = match aux.exec.ensure(cfg, first.clock, &nonce) {
            Ok(n) => n,
            Err(e) => {
                aux.harness_error = Some(format!("{:?}", e));
                return v;
            }
        };
        let mut sticky: Option<u64> = None;
        let mut seq = 0x0200_0000u32;
        for (k, sg) in st.segs.iter().enumerate().take(24) {
            let payload = &st.stream[sg.off..sg.off + sg.len];
            let f = mk_tcp(&st.flow, &eth.src, &eth.dst, seq, cookie.wrapping_add(1), F_PSH | F_ACK, payload);
            seq = seq.wrapping_add(payload.len() as u32);
            if node.frame(&f).is_err() {
                break; // a crash is C01's finding
            }
            let probe = match node.probe_tcb(cookie) {
                Ok(p) => p,
                Err(_) => break,
            };
            let got = probe.map(|p| p.0).unwrap_or(0);
            let prefix = &st.stream[..sg.off + sg.len];
            let want: Option<u64> = match sticky {
                Some(id) => Some(id),
                None => match sig::decide(&sigs, prefix, false) {
                    Decision::Match { sig: k2, .. } => {
                        let id = sig::proto_id(&sigs[k2]);
                        sticky = Some(id);
                        Some(id)
                    }
                    Decision::Ambiguous => None,
                    _ => Some(0),
                },
            };
            let cut_in_sig = k > 0 && sticky.is_some() && st.segs[0].len < 28;
            match want {
                None => {
                    t.any("two-signatures-complete-together");
                    break;
                }
                Some(w) => {
                    t.judged(
                        if w == 0 { Verdict::Silent } else { Verdict::Reply },
                        format!("tcp|id{}|seg{}|split{}", w, k.min(3), cut_in_sig as u8),
                    );
                    if cut_in_sig {
                        t.probe("signature-split-across-segments");
                    }
                    if got != w {
                        let signame = sigs.iter().find(|s| sig::proto_id(s) == w).map(|s| s.name).unwrap_or("none");
                        let why = if w != 0 {
                            let kk = sigs.iter().position(|s| sig::proto_id(s) == w && sig::decide(&sigs, prefix, false) == Decision::Match { sig: sigs.iter().position(|z| z.name == s.name).unwrap(), at: s.pat.len() });
                            match kk.and_then(|kk| sig::shadow_explanation(&sigs, kk, prefix).map(|e| (kk, e))) {
                                Some((kk, (pos, _, other))) => format!("{}:shadowed@{}<-{}", sigs[kk].name, pos, other.split(':').next().unwrap_or(other)),
                                None => format!("{}:unexplained", signame),
                            }
                        } else {
                            "none".into()
                        };
                        v.push(Violation {
                            prop: "C10",
                            rule: "tcp-identification".into(),
                            key: format!("tcp-identified-as-{}-expected:{}", got, why),
                            step: a.steps[sg.si].idx,
                            detail: format!(
                                "after segment {} (stream prefix of {} bytes: {}..) the flow is identified as protocol {} but the reference matcher says {} ({})",
                                k, prefix.len(), hex(&prefix[..prefix.len().min(12)]), got, w, signame
                            ),
                        });
                        break;
                    }
                }
            }
        }
    }
    v
}
