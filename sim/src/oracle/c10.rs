//! C10 - protocol identification is decided by leading bytes against the signature set.
//!
//! Reference: the published signatures with true wildcard semantics, first signature
//! completed (apps/sig.rs). Over UDP the decision is observed through which responder's reply
//! comes back; over TCP it is read directly from the node (guarded table probe) after every
//! segment of a replayed flow, whatever the handler then does with the bytes.

use crate::apps::sig::{self, identify_reply, Decision};
use crate::apps::{http, rpc, smb, ssh, stun, App};
use crate::model::Analysis;
use crate::oracle::{mk_tcp, Aux, Tally, Verdict, Violation};
use crate::wire::*;

/// Is `p` a complete valid request of the protocol of signature `s` (reference classifiers)?
fn valid_request(s: &sig::Sig, p: &[u8], tcp: bool) -> bool {
    match s.app {
        App::Http => matches!(http::classify(p), http::HttpClass::Complete { end, .. } if end == p.len()),
        App::Ssh => matches!(ssh::classify(p), ssh::SshClass::Complete { .. }),
        App::Ghost => true,
        App::Stun => stun::parse(p)
            .map(|m| m.is_binding_request() && m.len_matches && m.tiles && m.odd_change_requests() == 0)
            .unwrap_or(false),
        App::Rpc => {
            let body = if s.rpc_tcp_form {
                if p.len() < 4 || p[0] & 0x80 == 0 || (u32::from_be_bytes([p[0] & 0x7f, p[1], p[2], p[3]]) as usize) != p.len() - 4 {
                    return false;
                }
                &p[4..]
            } else {
                p
            };
            let _ = tcp;
            match rpc::parse_call(body) {
                (rpc::CallClass::Ok, Some(c)) => c.msg_type == 0 && c.rpcvers == 2 && rpc::in_portmap_range(c.prog) && c.proc_ <= 255,
                _ => false,
            }
        }
        App::Smb1 | App::Smb2 => match smb::classify(p) {
            smb::SmbClass::Smb1Negotiate { .. } | smb::SmbClass::Smb1SessionSetup | smb::SmbClass::Smb2SessionSetup => true,
            smb::SmbClass::Smb2Negotiate { dialects } => dialects.iter().any(|d| smb::SMB2_KNOWN.contains(d)),
            _ => false,
        },
        _ => false,
    }
}

fn family(a: App) -> App {
    a
}

pub fn check(a: &Analysis, aux: &mut Aux, t: &mut Tally) -> Vec<Violation> {
    let mut v = Vec::new();
    let sigs = sig::signatures();
    // ---- datagrams
    for x in a.udp_exchanges() {
        let idx = a.steps[x.si].idx;
        let d = sig::decide(&sigs, x.payload, true);
        let got = x.reply.and_then(identify_reply);
        match &d {
            Decision::Ambiguous => t.any("two-signatures-complete-together"),
            Decision::Pending => {}
            Decision::NoMatch => {
                t.judged(Verdict::Silent, format!("udp|nomatch|{}", match got { Some(App::Dns) => "dns", Some(_) => "sig", None => "silence" }));
                if let Some(g) = got {
                    if g != App::Dns {
                        v.push(Violation {
                            prop: "C10",
                            rule: "no-signature-answered".into(),
                            key: format!("no-signature-answered:{:?}", g),
                            step: idx,
                            detail: format!("payload {}.. completes no signature but was answered by the {:?} responder", hex(&x.payload[..x.payload.len().min(16)]), g),
                        });
                    }
                }
            }
            Decision::Match { sig: k, at } => {
                let s = &sigs[*k];
                let valid = valid_request(s, x.payload, false);
                t.judged(
                    if valid { Verdict::Reply } else { Verdict::Any },
                    format!("udp|{}|valid{}|{}", s.name, valid as u8, if got.is_some() { "reply" } else { "silence" }),
                );
                if s.end_anchored {
                    t.probe("end-anchored-signature-decides");
                }
                let _ = at;
                match got {
                    Some(g) if family(g) != family(s.app) => v.push(Violation {
                        prop: "C10",
                        rule: "wrong-responder".into(),
                        key: format!("wrong-responder:{}->{:?}", s.name, g),
                        step: idx,
                        detail: format!("leading bytes complete {} first, but the {:?} responder answered", s.name, g),
                    }),
                    None if valid => {
                        let why = match sig::shadow_explanation(&sigs, *k, x.payload) {
                            Some((pos, _, other)) => format!("shadowed@{}<-{}", pos, other.split(':').next().unwrap_or(other)),
                            None => "unexplained".into(),
                        };
                        v.push(Violation {
                            prop: "C10",
                            rule: "valid-request-not-served".into(),
                            key: if why.starts_with("shadowed") { format!("shadow:{}:{}", s.name, why) } else { format!("not-served:{}:{}", s.name, why) },
                            step: idx,
                            detail: format!("complete valid request whose leading bytes complete {} was not answered by that responder [{}]", s.name, why),
                        });
                    }
                    _ => {}
                }
            }
        }
    }
    // ---- streams: a connection whose bytes up to some segment are exactly one complete valid
    // request, with no signature completed before that segment (the request arrives whole, or its
    // signature is cut by the segmentation), is answered there by the signature's responder
    for st in a.tcp_streams() {
        if st.dirty || st.segs.is_empty() {
            continue;
        }
        for (k, sg) in st.segs.iter().enumerate().take(30) {
            let prefix = &st.stream[..sg.off + sg.len];
            match sig::decide(&sigs, prefix, false) {
                Decision::Pending => continue,
                Decision::Match { sig: ks, .. } => {
                    let s = &sigs[ks];
                    // nothing but the request itself may have been delivered (no empty segments,
                    // whose handling inside a signature is C11's concern)
                    if st.segs[..=k].iter().any(|x| x.len == 0) {
                        break;
                    }
                    if !valid_request(s, prefix, true) {
                        break;
                    }
                    let got = sg.reply_app.as_deref().and_then(identify_reply);
                    t.judged(Verdict::Reply, format!("tcp-served|{}|cuts{}", s.name, k.min(3)));
                    if k > 0 {
                        t.probe("valid-request-with-signature-cut-by-segmentation");
                    }
                    match got {
                        Some(g) if family(g) == family(s.app) => {}
                        Some(g) => v.push(Violation {
                            prop: "C10",
                            rule: "wrong-responder".into(),
                            key: format!("wrong-responder:tcp:{}->{:?}", s.name, g),
                            step: a.steps[sg.si].idx,
                            detail: format!("the connection's leading bytes complete {} first, but the {:?} responder answered", s.name, g),
                        }),
                        None => v.push(Violation {
                            prop: "C10",
                            rule: "valid-request-not-served".into(),
                            key: format!("not-served:tcp:{}:{}", s.name, if k == 0 { "whole" } else { "signature-cut" }),
                            step: a.steps[sg.si].idx,
                            detail: format!(
                                "complete valid request of {} bytes whose leading bytes complete {} (delivered in {} segment(s), signature completed by the last one) was not answered by that responder",
                                prefix.len(),
                                s.name,
                                k + 1
                            ),
                        }),
                    }
                    break;
                }
                _ => break,
            }
        }
    }
    // ---- streams: replay sampled flows on the second node, probing the identified protocol
    if aux.samples == 0 {
        return v;
    }
    let cfg = &a.hist.config;
    let streams = a.tcp_streams();
    let n = streams.len().max(1);
    let startk = (aux.pick as usize) % n;
    let mut done = 0;
    for q in 0..streams.len() {
        if done >= aux.samples {
            break;
        }
        let st = &streams[(startk + q) % n];
        if st.dirty || st.segs.is_empty() || st.cookie.is_none() || st.stream.is_empty() {
            continue;
        }
        let first = &a.steps[st.segs[0].si];
        let eth = match &first.req.eth {
            Some(e) => e.clone(),
            None => continue,
        };
        let cookie = st.cookie.unwrap();
        done += 1;
        let nonce = aux.nonce.clone();
        let node = match aux.exec.ensure(cfg, first.clock, &nonce) {
            Ok(n) => n,
            Err(e) => {
                aux.harness_error = Some(format!("{:?}", e));
                return v;
            }
        };
        let mut sticky: Option<u64> = None;
        let mut seq = 0x0200_0000u32;
        for (k, sg) in st.segs.iter().enumerate().take(24) {
            let payload = &st.stream[sg.off..sg.off + sg.len];
            let f = mk_tcp(&st.flow, &eth.src, &eth.dst, seq, cookie.wrapping_add(1), F_PSH | F_ACK, payload);
            seq = seq.wrapping_add(payload.len() as u32);
            if node.frame(&f).is_err() {
                break; // a crash is C01's finding
            }
            let probe = match node.probe_tcb(cookie) {
                Ok(p) => p,
                Err(_) => break,
            };
            let got = probe.map(|p| p.0).unwrap_or(0);
            let prefix = &st.stream[..sg.off + sg.len];
            let want: Option<u64> = match sticky {
                Some(id) => Some(id),
                None => match sig::decide(&sigs, prefix, false) {
                    Decision::Match { sig: k2, .. } => {
                        let id = sig::proto_id(&sigs[k2]);
                        sticky = Some(id);
                        Some(id)
                    }
                    Decision::Ambiguous => None,
                    _ => Some(0),
                },
            };
            let cut_in_sig = k > 0 && sticky.is_some() && st.segs[0].len < 28;
            match want {
                None => {
                    t.any("two-signatures-complete-together");
                    break;
                }
                Some(w) => {
                    t.judged(
                        if w == 0 { Verdict::Silent } else { Verdict::Reply },
                        format!("tcp|id{}|seg{}|split{}", w, k.min(3), cut_in_sig as u8),
                    );
                    if cut_in_sig {
                        t.probe("signature-split-across-segments");
                    }
                    if got != w {
                        let signame = sigs.iter().find(|s| sig::proto_id(s) == w).map(|s| s.name).unwrap_or("none");
                        let why = if w != 0 {
                            let kk = sigs.iter().position(|s| sig::proto_id(s) == w && sig::decide(&sigs, prefix, false) == Decision::Match { sig: sigs.iter().position(|z| z.name == s.name).unwrap(), at: s.pat.len() });
                            match kk.and_then(|kk| sig::shadow_explanation(&sigs, kk, prefix).map(|e| (kk, e))) {
                                Some((kk, (pos, _, other))) => format!("{}:shadowed@{}<-{}", sigs[kk].name, pos, other.split(':').next().unwrap_or(other)),
                                None => format!("{}:unexplained", signame),
                            }
                        } else {
                            "none".into()
                        };
                        v.push(Violation {
                            prop: "C10",
                            rule: "tcp-identification".into(),
                            key: if why.contains(":shadowed@") && got == 0 { format!("shadow:{}", why) } else { format!("tcp-identified-as-{}-expected:{}", got, why) },
                            step: a.steps[sg.si].idx,
                            detail: format!(
                                "after segment {} (stream prefix of {} bytes: {}..) the flow is identified as protocol {} but the reference matcher says {} ({})",
                                k, prefix.len(), hex(&prefix[..prefix.len().min(12)]), got, w, signame
                            ),
                        });
                        break;
                    }
                }
            }
        }
    }
    // ---- matcher walks: step the node's compiled matcher byte by byte (guarded probe) along
    // seeded prefixes that follow one signature and borrow other signatures' literals at its
    // wildcard positions, and compare every step with the reference decision
    {
        let mut x = aux.pick ^ 0x9e37_79b9_7f4a_7c15;
        let mut next = move || {
            x ^= x << 13;
            x ^= x >> 7;
            x ^= x << 17;
            x
        };
        let walks = aux.samples.min(6) * 2;
        let nonce = aux.nonce.clone();
        let clock = a.hist.start_ms;
        for _ in 0..walks {
            let k = (next() % sigs.len() as u64) as usize;
            let target = &sigs[k];
            let leave_at = if next() % 3 == 0 { (next() % (target.pat.len() as u64 + 1)) as usize } else { usize::MAX };
            // every other walk has a companion: another signature whose literals are used at all
            // the target's wildcard positions, so that the string runs along two signatures at once
            // (the merged branches of the compiled matcher)
            let companion: Option<usize> = if next() % 2 == 0 { Some((next() % sigs.len() as u64) as usize) } else { None };
            let mut prefix: Vec<u8> = Vec::new();
            for (j, p) in target.pat.iter().enumerate() {
                if j == leave_at {
                    prefix.push(next() as u8);
                    continue;
                }
                match p {
                    Some(b) => prefix.push(*b),
                    None => {
                        if let Some(c) = companion {
                            if let Some(Some(b)) = sigs[c].pat.get(j) {
                                if next() % 16 != 0 {
                                    prefix.push(*b);
                                    continue;
                                }
                            }
                        }
                        // wildcard: a literal some other signature has at this position, '*', or random
                        let lits: Vec<u8> = sigs.iter().filter_map(|o| o.pat.get(j).copied().flatten()).collect();
                        let b = match next() % 4 {
                            0 if !lits.is_empty() => lits[(next() % lits.len() as u64) as usize],
                            1 => b'*',
                            _ => next() as u8,
                        };
                        prefix.push(b);
                    }
                }
            }
            if companion.is_some() {
                t.probe("matcher-walk-along-two-signatures");
            }
            // a few bytes beyond the signature
            for _ in 0..(next() % 4) {
                prefix.push(next() as u8);
            }
            let node = match aux.exec.ensure(cfg, clock, &nonce) {
                Ok(n) => n,
                Err(e) => {
                    aux.harness_error = Some(format!("{:?}", e));
                    return v;
                }
            };
            let mut state = 0u64;
            let mut decided = false;
            for i in 0..prefix.len() {
                let (id, ns) = match node.probe_step(state, Some(prefix[i])) {
                    Ok(r) => r,
                    Err(_) => break,
                };
                state = ns;
                let want = match sig::decide(&sigs, &prefix[..i + 1], false) {
                    Decision::Match { sig: k2, at } if at == i + 1 => Some((sig::proto_id(&sigs[k2]), k2)),
                    Decision::Ambiguous => {
                        t.any("two-signatures-complete-together");
                        decided = true;
                        break;
                    }
                    _ => None,
                };
                let got = if id == u64::MAX { 0 } else { id };
                let w = want.map(|x| x.0).unwrap_or(0);
                t.judged(if w == 0 { Verdict::Silent } else { Verdict::Reply }, format!("walk|{}|pos{}|want{}", target.name, i.min(28), w));
                if got != w {
                    let (key, name) = match want {
                        Some((_, k2)) => match sig::shadow_explanation(&sigs, k2, &prefix[..i + 1]) {
                            Some((pos, _, other)) => (format!("shadow:{}:shadowed@{}<-{}", sigs[k2].name, pos, other.split(':').next().unwrap_or(other)), sigs[k2].name),
                            None => (format!("walk-miss:{}", sigs[k2].name), sigs[k2].name),
                        },
                        None => (format!("walk-false-match:id{}", got), "none"),
                    };
                    v.push(Violation {
                        prop: "C10",
                        rule: "matcher-walk".into(),
                        key,
                        step: 0,
                        detail: format!("stepping the compiled matcher over {} gives protocol {} after byte {}, the reference matcher says {} ({})", hex(&prefix[..i + 1]), got, i, w, name),
                    });
                    decided = true;
                    break;
                }
                if w != 0 {
                    decided = true;
                    break;
                }
            }
            if !decided {
                // end of datagram: end-anchored signatures
                if let Ok((id, _)) = node.probe_step(state, None) {
                    let got = if id == u64::MAX { 0 } else { id };
                    match sig::decide(&sigs, &prefix, true) {
                        Decision::Ambiguous => t.any("two-signatures-complete-together"),
                        d => {
                            let w = match &d {
                                Decision::Match { sig: k2, at } if *at == prefix.len() && sigs[*k2].end_anchored => sig::proto_id(&sigs[*k2]),
                                _ => 0,
                            };
                            t.judged(if w == 0 { Verdict::Silent } else { Verdict::Reply }, format!("walk-end|{}|want{}", target.name, w));
                            if got != w {
                                v.push(Violation {
                                    prop: "C10",
                                    rule: "matcher-walk".into(),
                                    key: format!("walk-end:{}:got{}:want{}", target.name, got, w),
                                    step: 0,
                                    detail: format!("at end of datagram {} the compiled matcher says {}, the reference matcher says {}", hex(&prefix), got, w),
                                });
                            }
                        }
                    }
                }
            }
        }
    }
    v
}
