//! C18 - SSH and Gh0st: banner exchanges are answered exactly, malformed ones are not.

use crate::apps::ssh::{self, SshClass};
use crate::apps::ghost;
use crate::model::Analysis;
use crate::oracle::{size_class, Aux, Tally, Verdict, Violation};

fn judge(
    payload: &[u8],
    reply: Option<&[u8]>,
    carrier: &str,
    idx: usize,
    t: &mut Tally,
    v: &mut Vec<Violation>,
) {
    if payload.starts_with(ghost::MAGIC) {
        t.judged(Verdict::Reply, format!("{}|ghost|{}", carrier, size_class(payload.len() - 5)));
        match reply {
            Some(r) if !r.is_empty() => {
                for (rule, detail) in ghost::check_reply(r) {
                    v.push(Violation {
                        prop: "C18",
                        rule: rule.into(),
                        key: format!("ghost:{}", rule),
                        step: idx,
                        detail,
                    });
                }
            }
            _ => v.push(Violation {
                prop: "C18",
                rule: "ghost-unanswered".into(),
                key: format!("ghost-unanswered:{}", &carrier[..3]),
                step: idx,
                detail: format!("payload starting with the Gh0st magic ({} bytes) over {} was not answered", payload.len(), carrier),
            }),
        }
        return;
    }
    match ssh::classify(payload) {
        SshClass::NotSsh => {}
        SshClass::Complete { .. } => {
            let ver = if payload.starts_with(b"SSH-2.0") { "2.0" } else { "1.99" };
            let lone_cr = payload[..payload.len() - 2].contains(&b'\r');
            t.judged(
                Verdict::Reply,
                format!("{}|ssh|{}|{}|cr{}|sp{}", carrier, ver, size_class(payload.len()), lone_cr as u8, payload.contains(&b' ') as u8),
            );
            if lone_cr {
                t.probe("lone-cr-inside-identification");
            }
            match reply {
                Some(r) if r == ssh::REPLY => {}
                Some(r) if !r.is_empty() => v.push(Violation {
                    prop: "C18",
                    rule: "ssh-reply".into(),
                    key: "ssh-reply-bytes".into(),
                    step: idx,
                    detail: format!("identification answered with {:?} instead of \"SSH-2.0-1\\r\\n\"", String::from_utf8_lossy(&r[..r.len().min(32)])),
                }),
                _ => v.push(Violation {
                    prop: "C18",
                    rule: "ssh-unanswered".into(),
                    key: format!("ssh-unanswered:{}:{}", &carrier[..3], ver),
                    step: idx,
                    detail: format!("well-formed identification string of {} bytes over {} was not answered", payload.len(), carrier),
                }),
            }
        }
        c @ (SshClass::Unterminated | SshClass::Malformed(_)) => {
            let why = match c {
                SshClass::Malformed(w) => w,
                _ => "unterminated",
            };
            t.judged(Verdict::Silent, format!("{}|ssh|{}", carrier, why));
            if reply.map(|r| r.starts_with(b"SSH-")).unwrap_or(false) {
                v.push(Violation {
                    prop: "C18",
                    rule: "ssh-answered".into(),
                    key: format!("ssh-answered:{}", why),
                    step: idx,
                    detail: format!("identification string that is {} was answered", why),
                });
            }
        }
        SshClass::DontCare(w) => t.any(w),
    }
}

pub fn check(a: &Analysis, _aux: &mut Aux, t: &mut Tally) -> Vec<Violation> {
    let mut v = Vec::new();
    for x in a.udp_exchanges() {
        let carrier = format!("udp{}", if x.v6 { 6 } else { 4 });
        judge(x.payload, x.reply, &carrier, a.steps[x.si].idx, t, &mut v);
    }
    for st in a.tcp_streams() {
        if st.dirty || st.segs.is_empty() {
            continue;
        }
        // the handlers are stateless per segment: only a first segment holding the whole
        // message is judged (a banner cut into several segments is a don't-care here)
        let s0 = &st.segs[0];
        let p0 = &st.stream[..s0.len];
        let v6 = matches!(st.flow.src, std::net::IpAddr::V6(_));
        let carrier = format!("tcp{}", if v6 { 6 } else { 4 });
        if st.segs.len() > 1 && !p0.starts_with(ghost::MAGIC) {
            if let SshClass::Unterminated = ssh::classify(p0) {
                t.any("identification-continues-in-next-segment");
                continue;
            }
        }
        judge(p0, s0.reply_app.as_deref(), &carrier, a.steps[s0.si].idx, t, &mut v);
    }
    // Segments after the identification: once the connection's byte stream holds one complete
    // identification string ending at a segment boundary, a later segment that is not itself an
    // identification string (a retransmitted tail, key-exchange bytes, garbage) must not draw the
    // banner again - whether the responder reads segments one by one or as a stream. A later
    // segment that is a whole identification string of its own is a don't-care (a per-segment
    // reader answers it, a stream reader does not).
    for st in a.tcp_streams() {
        if st.dirty || st.segs.is_empty() {
            continue;
        }
        let mut done: Option<usize> = None;
        for (k, sg) in st.segs.iter().enumerate() {
            let pre = &st.stream[..sg.off + sg.len];
            if b"SSH-2.0".starts_with(pre) || b"SSH-1.99".starts_with(pre) {
                continue; // still inside the signature
            }
            match ssh::classify(pre) {
                SshClass::Complete { .. } => {
                    done = Some(k);
                    break;
                }
                SshClass::Unterminated => continue,
                _ => break,
            }
        }
        let k = match done {
            Some(k) => k,
            None => continue,
        };
        let v6 = matches!(st.flow.src, std::net::IpAddr::V6(_));
        for sg in st.segs.iter().skip(k + 1) {
            if sg.len == 0 {
                continue;
            }
            let p = &st.stream[sg.off..sg.off + sg.len];
            match ssh::classify(p) {
                SshClass::Complete { .. } => t.any("second-identification-on-the-connection"),
                SshClass::DontCare(w) => t.any(w),
                // an identification string of another protocol version, or a malformed one: a
                // per-segment reader may see a (second) identification in it
                _ if p.starts_with(b"SSH-") => t.any("later-segment-shaped-like-an-identification"),
                _ => {
                    t.judged(Verdict::Silent, format!("tcp{}|ssh|after-banner|{}", if v6 { 6 } else { 4 }, if k > 0 { "cut" } else { "whole" }));
                    if k > 0 {
                        t.probe("segment-after-an-identification-cut-into-segments");
                    }
                    if sg.reply_app.as_deref().map(|r| r.starts_with(b"SSH-")).unwrap_or(false) {
                        v.push(Violation {
                            prop: "C18",
                            rule: "ssh-answered".into(),
                            key: "ssh-answered:after-banner".into(),
                            step: a.steps[sg.si].idx,
                            detail: format!("a segment of {} bytes that is no identification string, sent after the connection's identification, was answered with the banner", p.len()),
                        });
                    }
                }
            }
        }
    }
    v
}
