//! C18 - SSH and Gh0st: banner exchanges are answered exactly, malformed ones are not.

use crate::apps::ssh::{self, SshClass};
use crate::apps::ghost;
use crate::model::Analysis;
use crate::oracle::{size_class, Aux, Tally, Verdict, Violation};

fn judge(
    payload: &[u8],
    reply: Option<&[u8]>,
    carrier: &str,
    idx: usize,
    t: &mut Tally,
    v: &mut Vec<Violation>,
) {
    if payload.starts_with(ghost::MAGIC) {
        t.judged(Verdict::Reply, format!("{}|ghost|{}", carrier, size_class(payload.len() - 5)));
        match reply {
            Some(r) if !r.is_empty() => {
                for (rule, detail) in ghost::check_reply(r) {
                    v.push(Violation {
                        prop: "C18",
                        rule: rule.into(),
                        key: format!("ghost:{}", rule),
                        step: idx,
                        detail,
                    });
                }
            }
            _ => v.push(Violation {
                prop: "C18",
                rule: "ghost-unanswered".into(),
                key: format!("ghost-unanswered:{}", &carrier[..3]),
                step: idx,
                detail: format!("payload starting with the Gh0st magic ({} bytes) over {} was not answered", payload.len(), carrier),
            }),
        }
        return;
    }
    match ssh::classify(payload) {
        SshClass::NotSsh => {}
        SshClass::Complete { .. } => {
            let ver = if payload.starts_with(b"SSH-2.0") { "2.0" } else { "1.99" };
            let lone_cr = payload[..payload.len() - 2].contains(&b'\r');
            t.judged(
                Verdict::Reply,
                format!("{}|ssh|{}|{}|cr{}|sp{}", carrier, ver, size_class(payload.len()), lone_cr as u8, payload.contains(&b' ') as u8),
            );
            if lone_cr {
                t.probe("lone-cr-inside-identification");
            }
            match reply {
                Some(r) if r == ssh::REPLY => {}
                Some(r) if !r.is_empty() => v.push(Violation {
                    prop: "C18",
                    rule: "ssh-reply".into(),
                    key: "ssh-reply-bytes".into(),
                    step: idx,
                    detail: format!("identification answered with {:?} instead of \"SSH-2.0-1\\r\\n\"", String::from_utf8_lossy(&r[..r.len().min(32)])),
                }),
                _ => v.push(Violation {
                    prop: "C18",
                    rule: "ssh-unanswered".into(),
                    key: format!("ssh-unanswered:{}:{}", &carrier[..3], ver),
                    step: idx,
                    detail: format!("well-formed identification string of {} bytes over {} was not answered", payload.len(), carrier),
                }),
            }
        }
        c @ (SshClass::Unterminated | SshClass::Malformed(_)) => {
            let why = match c {
                SshClass::Malformed(w) => w,
                _ => "unterminated",
            };
            t.judged(Verdict::Silent, format!("{}|ssh|{}", carrier, why));
            if reply.map(|r| r.starts_with(b"SSH-")).unwrap_or(false) {
                v.push(Violation {
                    prop: "C18",
                    rule: "ssh-answered".into(),
                    key: format!("ssh-answered:{}", why),
                    step: idx,
                    detail: format!("identification string that is {} was answered", why),
                });
            }
        }
        SshClass::DontCare(w) => t.any(w),
    }
}

pub fn check(a: &Analysis, _aux: &mut Aux, t: &mut Tally) -> Vec<Violation> {
    let mut v = Vec::new();
    for x in a.udp_exchanges() {
        let carrier = format!("udp{}", if x.v6 { 6 } else { 4 });
        judge(x.payload, x.reply, &carrier, a.steps[x.si].idx, t, &mut v);
    }
    for st in a.tcp_streams() {
        if st.dirty || st.segs.is_empty() {
            continue;
        }
        // the handlers are stateless per segment: only a first segment holding the whole
        // message is judged (a banner cut into several segments is a don't-care here)
        let s0 = &st.segs[0];
        let p0 = &st.stream[..s0.len];
        let v6 = matches!(st.flow.src, std::net::IpAddr::V6(_));
        let carrier = format!("tcp{}", if v6 { 6 } else { 4 });
        if st.segs.len() > 1 && !p0.starts_with(ghost::MAGIC) {
            if let SshClass::Unterminated = ssh::classify(p0) {
                t.any("identification-continues-in-next-segment");
                continue;
            }
        }
        judge(p0, s0.reply_app.as_deref(), &carrier, a.steps[s0.si].idx, t, &mut v);
    }
    v
}
