//! C07 - TCP data is accepted only behind a valid cookie; seq/ack arithmetic is exact.

use crate::model::{Analysis, DataVerdict, TcpClass};
use crate::oracle::{flags_str, size_class, Aux, Tally, Verdict, Violation};
use crate::wire::*;

pub fn check(a: &Analysis, _aux: &mut Aux, t: &mut Tally) -> Vec<Violation> {
    let mut v = Vec::new();
    for s in &a.steps {
        let (th, info) = match (s.req.tcp(), &s.tcp) {
            (Some(th), Some(i)) if s.carrier.clean() => (th, i),
            _ => continue,
        };
        let rt = s.reply.as_ref().and_then(|r| r.tcp());
        let mut bad = |rule: &str, key: String, detail: String| {
            v.push(Violation {
                prop: "C07",
                rule: rule.to_string(),
                key,
                step: s.idx,
                detail,
            });
        };
        match info.class {
            TcpClass::Data => {
                let verdict = info.data.clone().unwrap_or(DataVerdict::Unknown);
                let edge = if th.ack == 0 {
                    "ack0"
                } else if th.seq.checked_add(th.pay_len as u32).is_none() {
                    "seqwrap"
                } else {
                    "-"
                };
                match verdict {
                    DataVerdict::Unknown => {
                        t.any("cookie-of-flow-never-observed");
                        continue;
                    }
                    DataVerdict::Collision => {
                        t.any("cookie-collision");
                        continue;
                    }
                    DataVerdict::Rejected => {
                        let c = info.cookie.unwrap_or(0);
                        let near = if th.ack == c {
                            "ack=cookie"
                        } else if th.ack == c.wrapping_add(2) {
                            "ack=cookie+2"
                        } else if th.ack == 0 {
                            "ack=0"
                        } else {
                            "ack=other"
                        };
                        t.judged(Verdict::Silent, format!("data|rejected|{}|{}|ep{}", near, flags_str(th.flags), s.epoch.min(2)));
                        if s.epoch > 0 {
                            t.probe("data-after-restart-must-revalidate");
                        }
                        if s.reply.is_some() {
                            bad(
                                "unvalidated-data-answered",
                                format!("unvalidated-data-answered:{}", near),
                                format!(
                                    "PSH|ACK segment with ack {:#x} on a flow that never presented its cookie ({:#x}+1) was answered with {}",
                                    th.ack,
                                    c,
                                    rt.map(|r| flags_str(r.flags)).unwrap_or("a non-TCP frame".into())
                                ),
                            );
                        }
                        continue;
                    }
                    DataVerdict::CollisionValidated => {
                        // its cookie collides with that of an earlier flow, but it presented its own
                        // valid cookie: data of a validated flow, judged at the transport level
                        t.judged(Verdict::Reply, format!("data|collision-validated|n{}", info.accepted_before.min(3)));
                    }
                    DataVerdict::Validates | DataVerdict::Established => {
                        t.judged(
                            Verdict::Reply,
                            format!(
                                "data|{:?}|{}|pay{}|{}|n{}",
                                verdict,
                                flags_str(th.flags),
                                size_class(th.pay_len),
                                edge,
                                info.accepted_before.min(3)
                            ),
                        );
                        if edge == "seqwrap" {
                            t.probe("seq-plus-len-wraps");
                        }
                        if verdict == DataVerdict::Validates && info.cookie == Some(0xffff_ffff) {
                            t.probe("cookie-ffffffff-ack-0");
                        }
                    }
                }
                let r = match rt {
                    Some(r) => r,
                    None => {
                        bad(
                            "data-unanswered",
                            format!("data-unanswered:{:?}", verdict),
                            format!("PSH|ACK segment on a {} flow (ack {:#x}, cookie {:?}) was not answered", if verdict == DataVerdict::Validates { "validating" } else { "validated" }, th.ack, info.cookie),
                        );
                        continue;
                    }
                };
                let f = r.flags & 0x1ff;
                let has_pay = r.seg_len > r.doff as usize * 4 && r.pay_len > 0;
                if f & !(F_PSH) != F_ACK {
                    bad("data-reply-flags", format!("data-reply-flags:{}", flags_str(f)), format!("data segment answered with flags {}", flags_str(f)));
                } else if (f & F_PSH != 0) != has_pay {
                    bad("data-reply-psh", "data-reply-psh".into(), format!("reply flags {} with {} payload bytes", flags_str(f), r.pay_len));
                }
                if r.seq != th.ack {
                    bad("data-reply-seq", "data-reply-seq".into(), format!("reply sequence {:#x}, peer acknowledged {:#x}", r.seq, th.ack));
                }
                let want = th.seq.wrapping_add(th.pay_len as u32);
                if r.ack != want {
                    bad("data-reply-ack", "data-reply-ack".into(), format!("reply acknowledges {:#x}, expected seq {:#x} + {} = {:#x}", r.ack, th.seq, th.pay_len, want));
                }
            }
            TcpClass::FinAck if th.pay_len > 0 => {
                t.any("fin-ack-with-payload-is-not-bare");
            }
            TcpClass::FinAck => {
                t.judged(Verdict::Reply, format!("finack|pay{}", (th.pay_len > 0) as u8));
                match rt {
                    Some(r) => {
                        if r.flags & 0x1ff != (F_FIN | F_ACK) {
                            bad("fin-reply-flags", "fin-reply-flags".into(), format!("FIN|ACK answered with {}", flags_str(r.flags)));
                        }
                        if th.pay_len == 0 {
                            if r.ack != th.seq.wrapping_add(1) {
                                bad("fin-reply-ack", "fin-reply-ack".into(), format!("FIN|ACK seq {:#x} acknowledged with {:#x}", th.seq, r.ack));
                            }
                            if th.seq == 0xffff_ffff {
                                t.probe("fin-seq-wraps");
                            }
                        }
                        if r.seq != th.ack {
                            bad("fin-reply-seq", "fin-reply-seq".into(), format!("FIN|ACK reply sequence {:#x}, peer acknowledged {:#x}", r.seq, th.ack));
                        }
                        if r.pay_len != 0 {
                            bad("fin-reply-payload", "fin-reply-payload".into(), "FIN|ACK reply carries data".into());
                        }
                    }
                    None => bad("fin-unanswered", "fin-unanswered".into(), "bare FIN|ACK was not answered".into()),
                }
            }
            TcpClass::BareAck | TcpClass::Rst => {
                t.judged(Verdict::Silent, format!("{:?}|pay{}", info.class, (th.pay_len > 0) as u8));
                if s.reply.is_some() {
                    bad(
                        "ack-rst-answered",
                        format!("answered:{:?}", info.class),
                        format!("segment with flags {} was answered", flags_str(th.flags)),
                    );
                }
            }
            TcpClass::Syn | TcpClass::Other => {
                t.any("flags-not-covered-by-c07");
            }
        }
    }
    v
}
