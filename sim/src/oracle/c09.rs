//! C09 - unvalidated traffic allocates no connection state. The table size is
//! reported by the node after every delivered frame (guarded probe); the model
//! says when it may change.

use crate::model::Analysis;
use crate::oracle::c01::layer_path;
use crate::oracle::{Aux, Tally, Verdict, Violation};

pub fn check(a: &Analysis, _aux: &mut Aux, t: &mut Tally) -> Vec<Violation> {
    let mut v = Vec::new();
    let mut prev: usize = 0;
    let mut epoch = 0u32;
    for s in &a.steps {
        if s.epoch != epoch {
            epoch = s.epoch;
            prev = 0;
            t.probe("restart-clears-table");
        }
        if s.uncertain {
            t.any("model-lost-track-of-table");
            prev = s.tcb_len;
            continue;
        }
        let class = match &s.tcp {
            Some(i) => format!("{:?}/{:?}", i.class, i.data),
            None => layer_path(&s.req),
        };
        let want = prev + if s.validates { 1 } else { 0 };
        t.judged(
            if s.validates { Verdict::Reply } else { Verdict::Silent },
            format!("{}|{}|{}", class, if s.carrier.clean() { "clean" } else { "odd" }, if prev == 0 { "empty" } else { "nonempty" }),
        );
        if s.tcb_len != want {
            v.push(Violation {
                prop: "C09",
                rule: if s.tcb_len > want { "state-allocated".into() } else { "state-lost".into() },
                key: format!("{}:{}", if s.tcb_len > want { "allocated-by" } else { "lost-at" }, class),
                step: s.idx,
                detail: format!(
                    "connection table went from {} to {} entries on a frame classified {} (model expects {})",
                    prev, s.tcb_len, class, want
                ),
            });
            // resynchronise so that one defect is reported once
            prev = s.tcb_len;
            continue;
        }
        if s.tcb_len != s.model_tcb {
            v.push(Violation {
                prop: "C09",
                rule: "table-size".into(),
                key: "table-size-vs-validated-flows".into(),
                step: s.idx,
                detail: format!("table has {} entries, {} flows are validated", s.tcb_len, s.model_tcb),
            });
        }
        prev = s.tcb_len;
    }
    // "so memory use is independent of the volume of unvalidated traffic": over a long stretch of
    // one epoch in which no flow is validated, the resident memory of the node process (sampled
    // every 2048th frame) does not grow in proportion to the traffic. The first 16 384 frames of
    // a run are warm-up (code pages, allocator pools). A stretch of at least 100 000 frames is
    // judged: growth of more than 2 MiB over the whole stretch AND of more than 768 KiB over its
    // second half is reported - a bounded structure that fills up and then stays (a cache, a
    // pool) passes, a leak does not. The unchanged responder shows 0 KiB over 10^6 frames.
    let mut samples: Vec<(usize, u64, usize)> = Vec::new(); // (position, rss, step index) of the current stretch
    let mut cur: Option<(usize, u32)> = None; // (table size, epoch) of the current stretch
    let mut reported = false;
    for (k, s) in a.steps.iter().enumerate() {
        let rss = match s.rss_kb {
            Some(r) => r,
            None => continue,
        };
        if k < 16_384 {
            continue;
        }
        if cur != Some((s.tcb_len, s.epoch)) {
            cur = Some((s.tcb_len, s.epoch));
            samples.clear();
        }
        samples.push((k, rss, s.idx));
        let (k0, r0, _) = samples[0];
        if k - k0 >= 100_000 && !reported {
            t.probe("memory-window-100k-unvalidated-frames");
            let allow: u64 = std::env::var("VERIF_MEM_ALLOW_KB").ok().and_then(|s| s.parse().ok()).unwrap_or(2048);
            let mid = samples.iter().find(|x| x.0 >= k0 + (k - k0) / 2).map(|x| x.1).unwrap_or(r0);
            if rss > r0 + allow && rss > mid + allow * 3 / 8 {
                reported = true;
                v.push(Violation {
                    prop: "C09",
                    rule: "memory-growth".into(),
                    key: "memory-grows-with-unvalidated-traffic".into(),
                    step: s.idx,
                    detail: format!(
                        "resident memory of the responder grew from {} KiB to {} KiB ({} KiB at half way) over {} frames that validated no flow (connection table constant at {} entries)",
                        r0, rss, mid, k - k0, s.tcb_len
                    ),
                });
            }
        }
    }
    v
}
