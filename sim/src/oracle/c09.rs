//! C09 - unvalidated traffic allocates no connection state. The table size is
//! reported by the node after every delivered frame (guarded probe); the model
//! says when it may change.

use crate::model::Analysis;
use crate::oracle::c01::layer_path;
use crate::oracle::{Aux, Tally, Verdict, Violation};

pub fn check(a: &Analysis, _aux: &mut Aux, t: &mut Tally) -> Vec<Violation> {
    let mut v = Vec::new();
    let mut prev: usize = 0;
    let mut epoch = 0u32;
    for s in &a.steps {
        if s.epoch != epoch {
            epoch = s.epoch;
            prev = 0;
            t.probe("restart-clears-table");
        }
        if s.uncertain {
            t.any("model-lost-track-of-table");
            prev = s.tcb_len;
            continue;
        }
        let class = match &s.tcp {
            Some(i) => format!("{:?}/{:?}", i.class, i.data),
            None => layer_path(&s.req),
        };
        let want = prev + if s.validates { 1 } else { 0 };
        t.judged(
            if s.validates { Verdict::Reply } else { Verdict::Silent },
            format!("{}|{}|{}", class, if s.carrier.clean() { "clean" } else { "odd" }, if prev == 0 { "empty" } else { "nonempty" }),
        );
        if s.tcb_len != want {
            v.push(Violation {
                prop: "C09",
                rule: if s.tcb_len > want { "state-allocated".into() } else { "state-lost".into() },
                key: format!("{}:{}", if s.tcb_len > want { "allocated-by" } else { "lost-at" }, class),
                step: s.idx,
                detail: format!(
                    "connection table went from {} to {} entries on a frame classified {} (model expects {})",
                    prev, s.tcb_len, class, want
                ),
            });
            // resynchronise so that one defect is reported once
            prev = s.tcb_len;
            continue;
        }
        if s.tcb_len != s.model_tcb {
            v.push(Violation {
                prop: "C09",
                rule: "table-size".into(),
                key: "table-size-vs-validated-flows".into(),
                step: s.idx,
                detail: format!("table has {} entries, {} flows are validated", s.tcb_len, s.model_tcb),
            });
        }
        prev = s.tcb_len;
    }
    v
}
