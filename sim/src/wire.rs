//! Independent frame construction and dissection (no pnet): Ethernet, ARP,
//! IPv4, IPv6, ICMP, ICMPv6, TCP, UDP and the Internet checksum. The parser
//! is deliberately tolerant (it reports what is there and flags what is
//! inconsistent) because it is applied to hostile requests as well as to the
//! responder's replies; strictness is the business of the oracles.

use std::net::{IpAddr, Ipv4Addr, Ipv6Addr};

pub type Mac = [u8; 6];

pub const ET_ARP: u16 = 0x0806;
pub const ET_IP4: u16 = 0x0800;
pub const ET_IP6: u16 = 0x86dd;

pub const P_ICMP: u8 = 1;
pub const P_TCP: u8 = 6;
pub const P_UDP: u8 = 17;
pub const P_ICMP6: u8 = 58;

pub const F_FIN: u16 = 0x001;
pub const F_SYN: u16 = 0x002;
pub const F_RST: u16 = 0x004;
pub const F_PSH: u16 = 0x008;
pub const F_ACK: u16 = 0x010;
pub const F_URG: u16 = 0x020;
pub const F_ECE: u16 = 0x040;
pub const F_CWR: u16 = 0x080;
pub const F_NS: u16 = 0x100;

pub const BROADCAST: Mac = [0xff; 6];

pub fn mac_str(m: &Mac) -> String {
    format!(
        "{:02x}:{:02x}:{:02x}:{:02x}:{:02x}:{:02x}",
        m[0], m[1], m[2], m[3], m[4], m[5]
    )
}

pub fn hex(data: &[u8]) -> String {
    const D: &[u8; 16] = b"0123456789abcdef";
    let mut s = String::with_capacity(data.len() * 2);
    for b in data {
        s.push(D[(b >> 4) as usize] as char);
        s.push(D[(b & 15) as usize] as char);
    }
    s
}

pub fn unhex(s: &str) -> Option<Vec<u8>> {
    let b = s.as_bytes();
    if b.len() % 2 != 0 {
        return None;
    }
    let mut v = Vec::with_capacity(b.len() / 2);
    for i in (0..b.len()).step_by(2) {
        let h = (b[i] as char).to_digit(16)?;
        let l = (b[i + 1] as char).to_digit(16)?;
        v.push((h * 16 + l) as u8);
    }
    Some(v)
}

// ---------------------------------------------------------------- checksums

/// One's complement sum of 16-bit big-endian words (odd trailing byte padded with zero).
pub fn ones_sum(mut acc: u32, data: &[u8]) -> u32 {
    let mut i = 0;
    while i + 1 < data.len() {
        acc += ((data[i] as u32) << 8) | data[i + 1] as u32;
        if acc > 0xffff_0000 {
            acc = (acc & 0xffff) + (acc >> 16);
        }
        i += 2;
    }
    if i < data.len() {
        acc += (data[i] as u32) << 8;
    }
    acc
}

pub fn fold(mut acc: u32) -> u16 {
    while acc >> 16 != 0 {
        acc = (acc & 0xffff) + (acc >> 16);
    }
    acc as u16
}

/// Internet checksum of `data` (the value to store in a zeroed checksum field).
pub fn inet_csum(data: &[u8]) -> u16 {
    !fold(ones_sum(0, data))
}

pub fn pseudo_sum(src: &IpAddr, dst: &IpAddr, proto: u8, len: usize) -> u32 {
    let mut acc = 0u32;
    match (src, dst) {
        (IpAddr::V4(s), IpAddr::V4(d)) => {
            acc = ones_sum(acc, &s.octets());
            acc = ones_sum(acc, &d.octets());
            acc = ones_sum(acc, &[0, proto]);
            acc = ones_sum(acc, &(len as u16).to_be_bytes());
        }
        (IpAddr::V6(s), IpAddr::V6(d)) => {
            acc = ones_sum(acc, &s.octets());
            acc = ones_sum(acc, &d.octets());
            acc = ones_sum(acc, &(len as u32).to_be_bytes());
            acc = ones_sum(acc, &[0, 0, 0, proto]);
        }
        _ => {}
    }
    acc
}

/// Checksum of an L4 segment (with its checksum field zeroed or not: the
/// caller decides) over the pseudo header.
pub fn l4_csum(src: &IpAddr, dst: &IpAddr, proto: u8, seg: &[u8]) -> u16 {
    !fold(ones_sum(pseudo_sum(src, dst, proto, seg.len()), seg))
}

/// True if the one's complement sum over pseudo-header+segment (checksum
/// field included) is 0xffff, i.e. the segment verifies.
pub fn l4_verifies(src: &IpAddr, dst: &IpAddr, proto: u8, seg: &[u8]) -> bool {
    fold(ones_sum(pseudo_sum(src, dst, proto, seg.len()), seg)) == 0xffff
}

// ----------------------------------------------------------------- builders

pub fn eth(dst: &Mac, src: &Mac, etype: u16, payload: &[u8]) -> Vec<u8> {
    let mut v = Vec::with_capacity(14 + payload.len());
    v.extend_from_slice(dst);
    v.extend_from_slice(src);
    v.extend_from_slice(&etype.to_be_bytes());
    v.extend_from_slice(payload);
    v
}

#[derive(Clone, Debug)]
pub struct ArpFields {
    pub htype: u16,
    pub ptype: u16,
    pub hlen: u8,
    pub plen: u8,
    pub op: u16,
    pub sha: Mac,
    pub spa: [u8; 4],
    pub tha: Mac,
    pub tpa: [u8; 4],
}

pub fn arp(f: &ArpFields) -> Vec<u8> {
    let mut v = Vec::with_capacity(28);
    v.extend_from_slice(&f.htype.to_be_bytes());
    v.extend_from_slice(&f.ptype.to_be_bytes());
    v.push(f.hlen);
    v.push(f.plen);
    v.extend_from_slice(&f.op.to_be_bytes());
    v.extend_from_slice(&f.sha);
    v.extend_from_slice(&f.spa);
    v.extend_from_slice(&f.tha);
    v.extend_from_slice(&f.tpa);
    v
}

#[derive(Clone, Debug)]
pub struct Ip4Opts {
    pub ttl: u8,
    pub id: u16,
    pub flags_frag: u16,
    pub tos: u8,
    pub options: Vec<u8>, // multiple of 4
}

impl Default for Ip4Opts {
    fn default() -> Self {
        Ip4Opts {
            ttl: 64,
            id: 0,
            flags_frag: 0x4000,
            tos: 0,
            options: Vec::new(),
        }
    }
}

pub fn ipv4(src: &Ipv4Addr, dst: &Ipv4Addr, proto: u8, payload: &[u8], o: &Ip4Opts) -> Vec<u8> {
    let ihl = 5 + o.options.len() / 4;
    let total = ihl * 4 + payload.len();
    let mut v = Vec::with_capacity(total);
    v.push(0x40 | (ihl as u8 & 0x0f));
    v.push(o.tos);
    v.extend_from_slice(&(total as u16).to_be_bytes());
    v.extend_from_slice(&o.id.to_be_bytes());
    v.extend_from_slice(&o.flags_frag.to_be_bytes());
    v.push(o.ttl);
    v.push(proto);
    v.extend_from_slice(&[0, 0]);
    v.extend_from_slice(&src.octets());
    v.extend_from_slice(&dst.octets());
    v.extend_from_slice(&o.options[..(ihl - 5) * 4]);
    let c = inet_csum(&v[..ihl * 4]);
    v[10..12].copy_from_slice(&c.to_be_bytes());
    v.extend_from_slice(payload);
    v
}

pub fn ipv6(src: &Ipv6Addr, dst: &Ipv6Addr, nh: u8, payload: &[u8], hlim: u8) -> Vec<u8> {
    let mut v = Vec::with_capacity(40 + payload.len());
    v.extend_from_slice(&[0x60, 0, 0, 0]);
    v.extend_from_slice(&(payload.len() as u16).to_be_bytes());
    v.push(nh);
    v.push(hlim);
    v.extend_from_slice(&src.octets());
    v.extend_from_slice(&dst.octets());
    v.extend_from_slice(payload);
    v
}

/// ICMPv4 message: type, code, then `rest` (for echo: id, seq, data).
pub fn icmp4(ty: u8, code: u8, rest: &[u8]) -> Vec<u8> {
    let mut v = vec![ty, code, 0, 0];
    v.extend_from_slice(rest);
    let c = inet_csum(&v);
    v[2..4].copy_from_slice(&c.to_be_bytes());
    v
}

pub fn icmp6(ty: u8, code: u8, rest: &[u8], src: &Ipv6Addr, dst: &Ipv6Addr) -> Vec<u8> {
    let mut v = vec![ty, code, 0, 0];
    v.extend_from_slice(rest);
    let c = l4_csum(&IpAddr::V6(*src), &IpAddr::V6(*dst), P_ICMP6, &v);
    v[2..4].copy_from_slice(&c.to_be_bytes());
    v
}

#[derive(Clone, Debug)]
pub struct TcpFields {
    pub sport: u16,
    pub dport: u16,
    pub seq: u32,
    pub ack: u32,
    pub flags: u16, // 9 bits
    pub window: u16,
    pub urg: u16,
    pub options: Vec<u8>, // multiple of 4, <= 40
}

pub fn tcp(f: &TcpFields, payload: &[u8], src: &IpAddr, dst: &IpAddr) -> Vec<u8> {
    let doff = 5 + f.options.len() / 4;
    let mut v = Vec::with_capacity(doff * 4 + payload.len());
    v.extend_from_slice(&f.sport.to_be_bytes());
    v.extend_from_slice(&f.dport.to_be_bytes());
    v.extend_from_slice(&f.seq.to_be_bytes());
    v.extend_from_slice(&f.ack.to_be_bytes());
    v.push(((doff as u8) << 4) | ((f.flags >> 8) as u8 & 1));
    v.push((f.flags & 0xff) as u8);
    v.extend_from_slice(&f.window.to_be_bytes());
    v.extend_from_slice(&[0, 0]);
    v.extend_from_slice(&f.urg.to_be_bytes());
    v.extend_from_slice(&f.options[..(doff - 5) * 4]);
    v.extend_from_slice(payload);
    let c = l4_csum(src, dst, P_TCP, &v);
    v[16..18].copy_from_slice(&c.to_be_bytes());
    v
}

pub fn udp(sport: u16, dport: u16, payload: &[u8], src: &IpAddr, dst: &IpAddr) -> Vec<u8> {
    let len = 8 + payload.len();
    let mut v = Vec::with_capacity(len);
    v.extend_from_slice(&sport.to_be_bytes());
    v.extend_from_slice(&dport.to_be_bytes());
    v.extend_from_slice(&(len as u16).to_be_bytes());
    v.extend_from_slice(&[0, 0]);
    v.extend_from_slice(payload);
    let mut c = l4_csum(src, dst, P_UDP, &v);
    if c == 0 {
        c = 0xffff;
    }
    v[6..8].copy_from_slice(&c.to_be_bytes());
    v
}

/// Wrap an L4 segment into IP (version by address family) and Ethernet.
pub fn frame_ip(
    dmac: &Mac,
    smac: &Mac,
    src: &IpAddr,
    dst: &IpAddr,
    proto: u8,
    l4: &[u8],
    ttl: u8,
) -> Vec<u8> {
    match (src, dst) {
        (IpAddr::V4(s), IpAddr::V4(d)) => {
            let o = Ip4Opts {
                ttl,
                ..Default::default()
            };
            eth(dmac, smac, ET_IP4, &ipv4(s, d, proto, l4, &o))
        }
        (IpAddr::V6(s), IpAddr::V6(d)) => eth(dmac, smac, ET_IP6, &ipv6(s, d, proto, l4, ttl)),
        _ => Vec::new(),
    }
}

// ------------------------------------------------------------------- parser

#[derive(Clone, Debug)]
pub struct EthH {
    pub dst: Mac,
    pub src: Mac,
    pub etype: u16,
}

#[derive(Clone, Debug)]
pub struct ArpH {
    pub f: ArpFields,
    pub trailer_len: usize,
}

#[derive(Clone, Debug)]
pub struct Ip4H {
    pub version: u8,
    pub ihl: u8,
    pub tos: u8,
    pub total_len: u16,
    pub id: u16,
    pub flags_frag: u16,
    pub ttl: u8,
    pub proto: u8,
    pub csum: u16,
    pub src: Ipv4Addr,
    pub dst: Ipv4Addr,
    /// bytes available after the Ethernet header
    pub avail: usize,
    /// offset (in the frame) and length of the payload as pnet delimits it
    pub pay_off: usize,
    pub pay_len: usize,
    /// header consistent with the bytes: version 4, ihl>=5, header within
    /// the frame, total_len >= header and <= available bytes
    pub wf: bool,
    /// header checksum verifies
    pub csum_ok: bool,
}

#[derive(Clone, Debug)]
pub struct Ip6H {
    pub version: u8,
    pub payload_len: u16,
    pub nh: u8,
    pub hlim: u8,
    pub src: Ipv6Addr,
    pub dst: Ipv6Addr,
    pub avail: usize,
    pub pay_off: usize,
    pub pay_len: usize,
    pub wf: bool,
}

#[derive(Clone, Debug)]
pub struct TcpH {
    pub sport: u16,
    pub dport: u16,
    pub seq: u32,
    pub ack: u32,
    pub doff: u8,
    pub flags: u16,
    pub window: u16,
    pub csum: u16,
    pub urg: u16,
    /// payload as pnet delimits it (offset in frame, length)
    pub pay_off: usize,
    pub pay_len: usize,
    pub seg_off: usize,
    pub seg_len: usize,
    /// data offset >= 5 and within the segment
    pub wf: bool,
    /// checksum verifies over the pseudo header
    pub csum_ok: bool,
}

#[derive(Clone, Debug)]
pub struct UdpH {
    pub sport: u16,
    pub dport: u16,
    pub len: u16,
    pub csum: u16,
    pub pay_off: usize,
    pub pay_len: usize,
    pub seg_off: usize,
    pub seg_len: usize,
    pub wf: bool,
    /// checksum verifies over the pseudo header (a zero field - "no checksum" - counts as valid
    /// over IPv4 only)
    pub csum_ok: bool,
}

#[derive(Clone, Debug)]
pub struct IcmpH {
    pub ty: u8,
    pub code: u8,
    pub csum: u16,
    /// everything after the 4-byte header
    pub rest_off: usize,
    pub rest_len: usize,
    pub seg_off: usize,
    pub seg_len: usize,
    /// checksum verifies (ICMPv6: over the pseudo header)
    pub csum_ok: bool,
}

#[derive(Clone, Debug)]
pub enum L3 {
    /// frame shorter than an Ethernet header
    NoEth,
    /// EtherType that is not ARP/IPv4/IPv6
    Other,
    /// known EtherType but too short for the fixed header
    Short,
    Arp(ArpH),
    V4(Ip4H),
    V6(Ip6H),
}

#[derive(Clone, Debug)]
pub enum L4 {
    None,
    /// known protocol number but too short for its fixed header
    Short,
    /// protocol number outside ICMP/TCP/UDP (ICMPv6 for v6)
    Other,
    Icmp4(IcmpH),
    Icmp6(IcmpH),
    Tcp(TcpH),
    Udp(UdpH),
}

#[derive(Clone, Debug)]
pub struct Pkt {
    pub len: usize,
    pub eth: Option<EthH>,
    pub l3: L3,
    pub l4: L4,
}

fn be16(b: &[u8], o: usize) -> u16 {
    ((b[o] as u16) << 8) | b[o + 1] as u16
}
fn be32(b: &[u8], o: usize) -> u32 {
    ((b[o] as u32) << 24) | ((b[o + 1] as u32) << 16) | ((b[o + 2] as u32) << 8) | b[o + 3] as u32
}

pub fn parse(raw: &[u8]) -> Pkt {
    let mut p = Pkt {
        len: raw.len(),
        eth: None,
        l3: L3::NoEth,
        l4: L4::None,
    };
    if raw.len() < 14 {
        return p;
    }
    let mut dst = [0u8; 6];
    let mut src = [0u8; 6];
    dst.copy_from_slice(&raw[0..6]);
    src.copy_from_slice(&raw[6..12]);
    let etype = be16(raw, 12);
    p.eth = Some(EthH { dst, src, etype });
    let b = &raw[14..];
    match etype {
        ET_ARP => {
            if b.len() < 28 {
                p.l3 = L3::Short;
                return p;
            }
            let mut f = ArpFields {
                htype: be16(b, 0),
                ptype: be16(b, 2),
                hlen: b[4],
                plen: b[5],
                op: be16(b, 6),
                sha: [0; 6],
                spa: [0; 4],
                tha: [0; 6],
                tpa: [0; 4],
            };
            f.sha.copy_from_slice(&b[8..14]);
            f.spa.copy_from_slice(&b[14..18]);
            f.tha.copy_from_slice(&b[18..24]);
            f.tpa.copy_from_slice(&b[24..28]);
            p.l3 = L3::Arp(ArpH {
                f,
                trailer_len: b.len() - 28,
            });
        }
        ET_IP4 => {
            if b.len() < 20 {
                p.l3 = L3::Short;
                return p;
            }
            let version = b[0] >> 4;
            let ihl = b[0] & 0x0f;
            let total_len = be16(b, 2);
            let hdr = ihl as usize * 4;
            // pnet: payload starts after 20 + options (options = ihl*4 - 20, saturating)
            let start = 20 + hdr.saturating_sub(20);
            let plen = (total_len as usize).saturating_sub(hdr);
            let (pay_off, pay_len) = if b.len() <= start {
                (14 + b.len(), 0)
            } else {
                let end = (start + plen).min(b.len());
                (14 + start, end - start)
            };
            let wf = version == 4
                && ihl >= 5
                && hdr <= b.len()
                && total_len as usize >= hdr
                && total_len as usize <= b.len();
            let csum_ok = ihl >= 5 && hdr <= b.len() && fold(ones_sum(0, &b[..hdr])) == 0xffff;
            let h = Ip4H {
                version,
                ihl,
                tos: b[1],
                total_len,
                id: be16(b, 4),
                flags_frag: be16(b, 6),
                ttl: b[8],
                proto: b[9],
                csum: be16(b, 10),
                src: Ipv4Addr::new(b[12], b[13], b[14], b[15]),
                dst: Ipv4Addr::new(b[16], b[17], b[18], b[19]),
                avail: b.len(),
                pay_off,
                pay_len,
                wf,
                csum_ok,
            };
            let proto = h.proto;
            p.l3 = L3::V4(h);
            let (sa, da) = (IpAddr::V4(match &p.l3 { L3::V4(h) => h.src, _ => Ipv4Addr::UNSPECIFIED }), IpAddr::V4(match &p.l3 { L3::V4(h) => h.dst, _ => Ipv4Addr::UNSPECIFIED }));
            p.l4 = parse_l4(raw, pay_off, pay_len, proto, false, &sa, &da);
        }
        ET_IP6 => {
            if b.len() < 40 {
                p.l3 = L3::Short;
                return p;
            }
            let version = b[0] >> 4;
            let payload_len = be16(b, 4);
            let mut s = [0u8; 16];
            let mut d = [0u8; 16];
            s.copy_from_slice(&b[8..24]);
            d.copy_from_slice(&b[24..40]);
            let (pay_off, pay_len) = if b.len() <= 40 {
                (14 + b.len(), 0)
            } else {
                let end = (40 + payload_len as usize).min(b.len());
                (14 + 40, end - 40)
            };
            let h = Ip6H {
                version,
                payload_len,
                nh: b[6],
                hlim: b[7],
                src: Ipv6Addr::from(s),
                dst: Ipv6Addr::from(d),
                avail: b.len(),
                pay_off,
                pay_len,
                wf: version == 6 && 40 + payload_len as usize <= b.len(),
            };
            let nh = h.nh;
            p.l3 = L3::V6(h);
            let (sa, da) = (IpAddr::V6(match &p.l3 { L3::V6(h) => h.src, _ => Ipv6Addr::UNSPECIFIED }), IpAddr::V6(match &p.l3 { L3::V6(h) => h.dst, _ => Ipv6Addr::UNSPECIFIED }));
            p.l4 = parse_l4(raw, pay_off, pay_len, nh, true, &sa, &da);
        }
        _ => {
            p.l3 = L3::Other;
        }
    }
    p
}

fn parse_l4(raw: &[u8], off: usize, len: usize, proto: u8, v6: bool, sa: &IpAddr, da: &IpAddr) -> L4 {
    let b = &raw[off..off + len];
    match proto {
        P_ICMP if !v6 => {
            if b.len() < 4 {
                return L4::Short;
            }
            L4::Icmp4(IcmpH {
                ty: b[0],
                code: b[1],
                csum: be16(b, 2),
                rest_off: off + 4,
                rest_len: len - 4,
                seg_off: off,
                seg_len: len,
                csum_ok: fold(ones_sum(0, b)) == 0xffff,
            })
        }
        P_ICMP6 if v6 => {
            if b.len() < 4 {
                return L4::Short;
            }
            L4::Icmp6(IcmpH {
                ty: b[0],
                code: b[1],
                csum: be16(b, 2),
                rest_off: off + 4,
                rest_len: len - 4,
                seg_off: off,
                seg_len: len,
                csum_ok: l4_verifies(sa, da, P_ICMP6, b),
            })
        }
        P_TCP => {
            if b.len() < 20 {
                return L4::Short;
            }
            let doff = b[12] >> 4;
            let flags = (((b[12] & 1) as u16) << 8) | b[13] as u16;
            // pnet: options length = doff*4-20 if doff > 5 else 0
            let start = 20 + if doff > 5 { doff as usize * 4 - 20 } else { 0 };
            let (pay_off, pay_len) = if b.len() <= start {
                (off + len, 0)
            } else {
                (off + start, len - start)
            };
            L4::Tcp(TcpH {
                sport: be16(b, 0),
                dport: be16(b, 2),
                seq: be32(b, 4),
                ack: be32(b, 8),
                doff,
                flags,
                window: be16(b, 14),
                csum: be16(b, 16),
                urg: be16(b, 18),
                pay_off,
                pay_len,
                seg_off: off,
                seg_len: len,
                wf: doff >= 5 && doff as usize * 4 <= len,
                csum_ok: l4_verifies(sa, da, P_TCP, b),
            })
        }
        P_UDP => {
            if b.len() < 8 {
                return L4::Short;
            }
            let l = be16(b, 4);
            L4::Udp(UdpH {
                sport: be16(b, 0),
                dport: be16(b, 2),
                len: l,
                csum: be16(b, 6),
                pay_off: off + 8,
                pay_len: len - 8,
                seg_off: off,
                seg_len: len,
                wf: l as usize == len,
                csum_ok: (be16(b, 6) == 0 && !v6) || l4_verifies(sa, da, P_UDP, b),
            })
        }
        _ => L4::Other,
    }
}

impl Pkt {
    pub fn ip_src(&self) -> Option<IpAddr> {
        match &self.l3 {
            L3::V4(h) => Some(IpAddr::V4(h.src)),
            L3::V6(h) => Some(IpAddr::V6(h.src)),
            _ => None,
        }
    }
    pub fn ip_dst(&self) -> Option<IpAddr> {
        match &self.l3 {
            L3::V4(h) => Some(IpAddr::V4(h.dst)),
            L3::V6(h) => Some(IpAddr::V6(h.dst)),
            _ => None,
        }
    }
    pub fn ip_proto(&self) -> Option<u8> {
        match &self.l3 {
            L3::V4(h) => Some(h.proto),
            L3::V6(h) => Some(h.nh),
            _ => None,
        }
    }
    pub fn l3_wf(&self) -> bool {
        match &self.l3 {
            L3::V4(h) => h.wf,
            L3::V6(h) => h.wf,
            L3::Arp(_) => true,
            _ => false,
        }
    }
    pub fn ports(&self) -> Option<(u16, u16)> {
        match &self.l4 {
            L4::Tcp(t) => Some((t.sport, t.dport)),
            L4::Udp(u) => Some((u.sport, u.dport)),
            _ => None,
        }
    }
    pub fn tcp(&self) -> Option<&TcpH> {
        if let L4::Tcp(t) = &self.l4 {
            Some(t)
        } else {
            None
        }
    }
    pub fn udp(&self) -> Option<&UdpH> {
        if let L4::Udp(u) = &self.l4 {
            Some(u)
        } else {
            None
        }
    }
    /// application payload (TCP or UDP) as the responder's dissectors delimit it
    pub fn app<'a>(&self, raw: &'a [u8]) -> Option<&'a [u8]> {
        match &self.l4 {
            L4::Tcp(t) => Some(&raw[t.pay_off..t.pay_off + t.pay_len]),
            L4::Udp(u) => Some(&raw[u.pay_off..u.pay_off + u.pay_len]),
            _ => None,
        }
    }
    pub fn l4_seg<'a>(&self, raw: &'a [u8]) -> Option<&'a [u8]> {
        match &self.l4 {
            L4::Tcp(t) => Some(&raw[t.seg_off..t.seg_off + t.seg_len]),
            L4::Udp(u) => Some(&raw[u.seg_off..u.seg_off + u.seg_len]),
            L4::Icmp4(i) | L4::Icmp6(i) => Some(&raw[i.seg_off..i.seg_off + i.seg_len]),
            _ => None,
        }
    }
}

/// 5-tuple key of a TCP flow as seen from the responder (client = source).
#[derive(Clone, Debug, PartialEq, Eq, Hash, PartialOrd, Ord)]
pub struct FlowKey {
    pub src: IpAddr,
    pub dst: IpAddr,
    pub sport: u16,
    pub dport: u16,
}

impl Pkt {
    pub fn flow(&self) -> Option<FlowKey> {
        let (sport, dport) = self.ports()?;
        Some(FlowKey {
            src: self.ip_src()?,
            dst: self.ip_dst()?,
            sport,
            dport,
        })
    }
}
