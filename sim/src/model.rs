//! Reference model shared by the oracles: an executable reading of the
//! property statements, written from the statements and RFCs, not from the
//! responder's code. It walks a recorded history once and annotates every
//! delivered frame with what the properties say about it.

use std::collections::{BTreeMap, BTreeSet};
use std::net::IpAddr;

use crate::exec::{History, Step};
use crate::node::Config;
use crate::wire::*;

/// Destination MACs the responder may answer to (C02): own, broadcast, the
/// IPv6 all-nodes group, the RFC 1112 group MAC of each handled IPv4 address
/// and the solicited-node group MAC of each handled IPv6 address.
pub fn authorized_macs(cfg: &Config) -> BTreeSet<Mac> {
    let mut s = BTreeSet::new();
    s.insert(cfg.mac);
    s.insert(BROADCAST);
    s.insert([0x33, 0x33, 0, 0, 0, 1]);
    if let Some(ips) = &cfg.self_ips {
        for ip in ips {
            match ip {
                IpAddr::V4(a) => {
                    let o = a.octets();
                    // low-order 23 bits of the address into 01-00-5E-00-00-00
                    s.insert([0x01, 0x00, 0x5e, o[1] & 0x7f, o[2], o[3]]);
                }
                IpAddr::V6(a) => {
                    let o = a.octets();
                    // 33:33 + low 32 bits of ff02::1:ffXX:XXXX
                    s.insert([0x33, 0x33, 0xff, o[13], o[14], o[15]]);
                }
            }
        }
    }
    s
}

/// Why a frame is outside the responder's scope (C02), if it is.
#[derive(Clone, Debug, PartialEq, Eq)]
pub enum OutOfScope {
    NoEthernet,
    ForeignMac,
    EtherType,
    DeniedSource,
    NextProtocol,
}

/// How far the carrier of a frame is well-formed, as far as the oracles need it.
#[derive(Clone, Debug)]
pub struct Carrier {
    /// C02 says: silence
    pub out: Option<OutOfScope>,
    /// L3 header present and self-consistent (lengths, version)
    pub l3_ok: bool,
    /// destination IP is handled (always true when no list is configured;
    /// for ARP: the target protocol address)
    pub dst_handled: bool,
    /// L4 header present and self-consistent
    pub l4_ok: bool,
}

#[derive(Clone, Debug, PartialEq, Eq)]
pub enum TcpClass {
    /// PSH and ACK both set
    Data,
    /// flags exactly ACK
    BareAck,
    /// flags exactly RST
    Rst,
    /// flags exactly FIN|ACK
    FinAck,
    /// SYN set, rest subset of {PSH,URG,CWR,ECE}, not both CWR and ECE (and not PSH&ACK)
    Syn,
    Other,
}

pub fn tcp_class(flags: u16) -> TcpClass {
    let f = flags & 0x1ff;
    if f & (F_PSH | F_ACK) == (F_PSH | F_ACK) {
        return TcpClass::Data;
    }
    if f == F_ACK {
        return TcpClass::BareAck;
    }
    if f == F_RST {
        return TcpClass::Rst;
    }
    if f == (F_FIN | F_ACK) {
        return TcpClass::FinAck;
    }
    if f & F_SYN != 0 {
        let rest = f & !F_SYN;
        if rest & !(F_PSH | F_URG | F_CWR | F_ECE) == 0 && !(rest & F_CWR != 0 && rest & F_ECE != 0) {
            return TcpClass::Syn;
        }
    }
    TcpClass::Other
}

#[derive(Clone, Debug, PartialEq, Eq)]
pub enum DataVerdict {
    /// flow validated earlier in this epoch: always answered
    Established,
    /// ack = cookie+1 on a not yet validated flow: answered, and this creates state
    Validates,
    /// wrong ack on a not validated flow: silence
    Rejected,
    /// cookie of the flow never observed in this history: cannot judge
    Unknown,
    /// another, already validated flow has the same 32-bit cookie: the
    /// statement (C08) and the implementation disagree here by design
    Collision,
    /// the same, but this flow presented (now or earlier) its own valid cookie: whatever the
    /// shared entry does to the parsers, the segment is data of a validated flow (C07)
    CollisionValidated,
}

#[derive(Clone, Debug)]
pub struct TcpInfo {
    pub flow: FlowKey,
    pub class: TcpClass,
    pub cookie: Option<u32>,
    pub data: Option<DataVerdict>,
    /// number of data segments accepted on this flow in this epoch before this one
    pub accepted_before: usize,
    /// stream offset (sum of accepted payload lengths) before this segment
    pub stream_off: usize,
}

pub struct StepInfo {
    pub idx: usize,
    pub raw: Vec<u8>,
    pub req: Pkt,
    pub reply_raw: Option<Vec<u8>>,
    pub reply: Option<Pkt>,
    pub carrier: Carrier,
    pub tcp: Option<TcpInfo>,
    pub tcb_len: usize,
    /// resident memory of the node (KiB) where it was sampled
    pub rss_kb: Option<u64>,
    pub epoch: u32,
    pub clock: u64,
    /// table size the model expects after this step (number of flows validated in this epoch)
    pub model_tcb: usize,
    /// this step is the validation event of its flow
    pub validates: bool,
    /// the model lost track of the table in this epoch (a flow sent data
    /// before its cookie could be learned, or cookies collide)
    pub uncertain: bool,
}

pub struct Analysis<'h> {
    pub hist: &'h History,
    pub auth: BTreeSet<Mac>,
    pub steps: Vec<StepInfo>,
    /// cookie per flow, learned from the SYN-ACKs seen anywhere in the history
    pub cookies: BTreeMap<FlowKey, u32>,
    /// flows for which two different cookies were observed (C06 reports these)
    pub cookie_conflicts: Vec<(FlowKey, u32, u32, usize)>,
    /// map from record index to index into `steps`
    pub by_rec: BTreeMap<usize, usize>,
    /// flows that received data segments over an odd carrier: their byte
    /// stream as seen by the responder is not determined by the statements
    pub dirty_flows: BTreeSet<FlowKey>,
}

pub fn carrier(cfg: &Config, auth: &BTreeSet<Mac>, p: &Pkt) -> Carrier {
    let mut c = Carrier {
        out: None,
        l3_ok: false,
        dst_handled: false,
        l4_ok: false,
    };
    let eth = match &p.eth {
        None => {
            c.out = Some(OutOfScope::NoEthernet);
            return c;
        }
        Some(e) => e,
    };
    if !auth.contains(&eth.dst) {
        c.out = Some(OutOfScope::ForeignMac);
    }
    match eth.etype {
        ET_ARP | ET_IP4 | ET_IP6 => {}
        _ => {
            if c.out.is_none() {
                c.out = Some(OutOfScope::EtherType);
            }
            return c;
        }
    }
    match &p.l3 {
        L3::Arp(a) => {
            c.l3_ok = true;
            c.dst_handled = cfg.handles(&IpAddr::V4(a.f.tpa.into()));
            c.l4_ok = true;
        }
        L3::V4(h) => {
            c.l3_ok = h.wf && h.flags_frag & 0x3fff == 0;
            c.dst_handled = cfg.handles(&IpAddr::V4(h.dst));
            if cfg.denied(&IpAddr::V4(h.src)) && c.out.is_none() {
                c.out = Some(OutOfScope::DeniedSource);
            }
            if !matches!(h.proto, P_ICMP | P_TCP | P_UDP) && c.out.is_none() {
                c.out = Some(OutOfScope::NextProtocol);
            }
        }
        L3::V6(h) => {
            c.l3_ok = h.wf;
            c.dst_handled = cfg.handles(&IpAddr::V6(h.dst));
            if cfg.denied(&IpAddr::V6(h.src)) && c.out.is_none() {
                c.out = Some(OutOfScope::DeniedSource);
            }
            if !matches!(h.nh, P_ICMP6 | P_TCP | P_UDP) && c.out.is_none() {
                c.out = Some(OutOfScope::NextProtocol);
            }
        }
        _ => {}
    }
    // A request whose checksums do not verify (IPv4 header, ICMP, ICMPv6, TCP, UDP - a zero UDP
    // field counts as "no checksum" over IPv4 only) is no well-formed request: no statement says
    // whether a responder answers it (the unchanged one does, one that verifies checksums does
    // not), so it travels on an odd carrier.
    if let L3::V4(h) = &p.l3 {
        c.l3_ok = c.l3_ok && h.csum_ok;
    }
    c.l4_ok = match &p.l4 {
        // PSH and ACK together with RST or SYN: the statements speak of "a segment carrying PSH and
        // ACK" (C07) and of "RST segments" / "SYN|ACK segments" that are never answered (C07, C12) -
        // such a segment is both, and either reading is a responder the statements allow
        L4::Tcp(t) if t.flags & (F_PSH | F_ACK) == (F_PSH | F_ACK) && t.flags & (F_RST | F_SYN) != 0 => false,
        L4::Tcp(t) => t.wf && t.csum_ok,
        L4::Udp(u) => u.wf && u.csum_ok,
        L4::Icmp4(i) | L4::Icmp6(i) => i.csum_ok,
        _ => matches!(p.l3, L3::Arp(_)),
    };
    c
}

impl Carrier {
    /// the frame reaches the layer-4 code of the responder with a carrier
    /// about which the properties make definite statements
    pub fn clean(&self) -> bool {
        self.out.is_none() && self.l3_ok && self.dst_handled && self.l4_ok
    }
}

/// Is this reply a TCP SYN-ACK (exactly SYN|ACK)?
pub fn is_synack(p: &Pkt) -> bool {
    matches!(p.tcp(), Some(t) if t.flags & 0x1ff == (F_SYN | F_ACK))
}

impl<'h> Analysis<'h> {
    pub fn new(hist: &'h History) -> Analysis<'h> {
        let cfg = &hist.config;
        let auth = authorized_macs(cfg);
        let mut steps: Vec<StepInfo> = Vec::new();
        let mut by_rec = BTreeMap::new();
        // pass 1: parse, learn cookies
        let mut cookies: BTreeMap<FlowKey, u32> = BTreeMap::new();
        let mut conflicts = Vec::new();
        for (i, r) in hist.recs.iter().enumerate() {
            if let (Step::Frame(f), Some(obs)) = (&r.step, &r.obs) {
                let req = parse(f);
                let reply = obs.reply.as_ref().map(|x| parse(x));
                let car = carrier(cfg, &auth, &req);
                if let (Some(rep), Some(t)) = (&reply, req.tcp()) {
                    if car.clean() && tcp_class(t.flags) == TcpClass::Syn && is_synack(rep) {
                        if let (Some(fk), Some(rt)) = (req.flow(), rep.tcp()) {
                            match cookies.get(&fk) {
                                None => {
                                    cookies.insert(fk, rt.seq);
                                }
                                Some(c) if *c != rt.seq => conflicts.push((fk, *c, rt.seq, i)),
                                _ => {}
                            }
                        }
                    }
                }
                by_rec.insert(i, steps.len());
                steps.push(StepInfo {
                    idx: i,
                    raw: f.clone(),
                    req,
                    reply_raw: obs.reply.clone(),
                    reply,
                    carrier: car,
                    tcp: None,
                    tcb_len: obs.tcb_len,
                    rss_kb: obs.rss_kb,
                    epoch: r.epoch,
                    clock: r.clock,
                    model_tcb: 0,
                    validates: false,
                    uncertain: false,
                });
            }
        }
        // pass 2: connection model
        let mut validated: BTreeMap<FlowKey, (usize, usize)> = BTreeMap::new(); // flow -> (segments, bytes)
        let mut validated_colliding: BTreeMap<FlowKey, (usize, usize)> = BTreeMap::new();
        let mut epoch = 0u32;
        let mut uncertain = false;
        let mut valid_cookies: BTreeMap<u32, FlowKey> = BTreeMap::new();
        let mut dirty: BTreeSet<FlowKey> = BTreeSet::new();
        let mut prev_tcb = 0usize;
        for s in steps.iter_mut() {
            if s.epoch != epoch {
                epoch = s.epoch;
                validated.clear();
                validated_colliding.clear();
                valid_cookies.clear();
                uncertain = false;
                prev_tcb = 0;
            }
            if s.carrier.clean() {
                if let (Some(t), Some(fk)) = (s.req.tcp(), s.req.flow()) {
                    let class = tcp_class(t.flags);
                    let cookie = cookies.get(&fk).copied();
                    let mut info = TcpInfo {
                        flow: fk.clone(),
                        class: class.clone(),
                        cookie,
                        data: None,
                        accepted_before: 0,
                        stream_off: 0,
                    };
                    if class == TcpClass::Data {
                        if let Some((n, b)) = validated.get(&fk).copied() {
                            info.data = Some(DataVerdict::Established);
                            info.accepted_before = n;
                            info.stream_off = b;
                            validated.insert(fk, (n + 1, b + t.pay_len));
                        } else {
                            match cookie {
                                None => {
                                    info.data = Some(DataVerdict::Unknown);
                                    // the table only becomes unpredictable if this segment changed it
                                    if s.tcb_len != prev_tcb {
                                        uncertain = true;
                                    }
                                }
                                Some(c) if valid_cookies.get(&c).map(|f| *f != fk).unwrap_or(false) => {
                                    uncertain = true;
                                    if let Some((n, b)) = validated_colliding.get(&fk).copied() {
                                        info.data = Some(DataVerdict::CollisionValidated);
                                        info.accepted_before = n;
                                        info.stream_off = b;
                                        validated_colliding.insert(fk, (n + 1, b + t.pay_len));
                                    } else if t.ack == c.wrapping_add(1) {
                                        info.data = Some(DataVerdict::CollisionValidated);
                                        validated_colliding.insert(fk, (1, t.pay_len));
                                    } else {
                                        info.data = Some(DataVerdict::Collision);
                                    }
                                }
                                Some(c) => {
                                    if t.ack == c.wrapping_add(1) {
                                        info.data = Some(DataVerdict::Validates);
                                        s.validates = true;
                                        valid_cookies.insert(c, fk.clone());
                                        validated.insert(fk, (1, t.pay_len));
                                    } else {
                                        info.data = Some(DataVerdict::Rejected);
                                    }
                                }
                            }
                        }
                    }
                    s.tcp = Some(info);
                }
            } else if s.carrier.out.is_none() {
                // Odd carrier (inconsistent lengths, fragments, unhandled destination ...): the
                // properties make no definite statement about whether such a segment is
                // processed. The model follows the node, but only along what C09 allows: state
                // may appear only for a segment acknowledging the cookie of the flow it parses to.
                if let (Some(t), Some(fk)) = (s.req.tcp(), s.req.flow()) {
                    if tcp_class(t.flags) == TcpClass::Data {
                        if validated.contains_key(&fk) {
                            dirty.insert(fk);
                        } else if s.tcb_len == prev_tcb + 1 {
                            match cookies.get(&fk).copied() {
                                Some(c) if t.ack == c.wrapping_add(1) => {
                                    s.validates = true;
                                    valid_cookies.insert(c, fk.clone());
                                    validated.insert(fk.clone(), (1, t.pay_len));
                                    dirty.insert(fk);
                                }
                                Some(_) => {}
                                None => uncertain = true,
                            }
                        }
                    }
                }
            }
            s.model_tcb = validated.len();
            s.uncertain = uncertain;
            prev_tcb = s.tcb_len;
        }
        Analysis {
            hist,
            auth,
            steps,
            cookies,
            cookie_conflicts: conflicts,
            by_rec,
            dirty_flows: dirty,
        }
    }

    /// true if some flow's data verdict could not be decided (cookie never observed)
    pub fn unknown_cookie_flows(&self) -> BTreeSet<FlowKey> {
        let mut s = BTreeSet::new();
        for st in &self.steps {
            if let Some(t) = &st.tcp {
                if t.data == Some(DataVerdict::Unknown) {
                    s.insert(t.flow.clone());
                }
            }
        }
        s
    }
}

// ------------------------------------------------------ application exchanges

/// One UDP datagram delivered over a clean carrier, with the application bytes of the reply.
pub struct UdpExchange<'a> {
    pub si: usize,
    pub payload: &'a [u8],
    /// Some(bytes) if the node answered with a UDP datagram
    pub reply: Option<&'a [u8]>,
    /// the node answered with something that is not UDP
    pub odd_reply: bool,
    pub v6: bool,
    pub dst: IpAddr,
    pub src: IpAddr,
    pub sport: u16,
    pub dport: u16,
}

pub struct TcpSeg {
    pub si: usize,
    /// offset of this segment's payload in the flow's stream
    pub off: usize,
    pub len: usize,
    /// application bytes carried by the reply (empty for a bare ACK), None if there was no TCP reply
    pub reply_app: Option<Vec<u8>>,
}

/// The byte stream the responder saw on one flow in one restart epoch: the accepted data
/// segments in delivery order (the responder does no reassembly).
pub struct TcpStream {
    pub flow: FlowKey,
    pub epoch: u32,
    pub segs: Vec<TcpSeg>,
    pub stream: Vec<u8>,
    pub dirty: bool,
    pub cookie: Option<u32>,
    /// some data segment of the flow carried flags beyond PSH|ACK
    pub odd_flags: bool,
}

impl TcpStream {
    /// index of the segment containing stream byte `pos`
    pub fn seg_of(&self, pos: usize) -> Option<usize> {
        self.segs.iter().position(|s| pos >= s.off && pos < s.off + s.len)
    }
}

impl<'h> Analysis<'h> {
    pub fn udp_exchanges(&self) -> Vec<UdpExchange<'_>> {
        let mut v = Vec::new();
        for (si, s) in self.steps.iter().enumerate() {
            if !s.carrier.clean() {
                continue;
            }
            if let L4::Udp(u) = &s.req.l4 {
                let payload = &s.raw[u.pay_off..u.pay_off + u.pay_len];
                let (reply, odd) = match (&s.reply, &s.reply_raw) {
                    (Some(r), Some(raw)) => match &r.l4 {
                        L4::Udp(ru) => (Some(&raw[ru.pay_off..ru.pay_off + ru.pay_len]), false),
                        _ => (None, true),
                    },
                    _ => (None, false),
                };
                v.push(UdpExchange {
                    si,
                    payload,
                    reply,
                    odd_reply: odd,
                    v6: matches!(s.req.l3, L3::V6(_)),
                    dst: s.req.ip_dst().unwrap(),
                    src: s.req.ip_src().unwrap(),
                    sport: u.sport,
                    dport: u.dport,
                });
            }
        }
        v
    }

    pub fn tcp_streams(&self) -> Vec<TcpStream> {
        let mut map: BTreeMap<(u32, FlowKey), TcpStream> = BTreeMap::new();
        for (si, s) in self.steps.iter().enumerate() {
            let (ti, th) = match (&s.tcp, s.req.tcp()) {
                (Some(ti), Some(th)) => (ti, th),
                _ => continue,
            };
            if !matches!(ti.data, Some(DataVerdict::Validates) | Some(DataVerdict::Established)) {
                continue;
            }
            let e = map.entry((s.epoch, ti.flow.clone())).or_insert_with(|| TcpStream {
                flow: ti.flow.clone(),
                epoch: s.epoch,
                segs: Vec::new(),
                stream: Vec::new(),
                dirty: self.dirty_flows.contains(&ti.flow),
                cookie: ti.cookie,
                odd_flags: false,
            });
            if th.flags & 0x1ff != (F_PSH | F_ACK) {
                e.odd_flags = true;
            }
            let reply_app = match (&s.reply, &s.reply_raw) {
                (Some(r), Some(raw)) => r.tcp().map(|rt| raw[rt.pay_off..rt.pay_off + rt.pay_len].to_vec()),
                _ => None,
            };
            let off = e.stream.len();
            e.stream.extend_from_slice(&s.raw[th.pay_off..th.pay_off + th.pay_len]);
            e.segs.push(TcpSeg {
                si,
                off,
                len: th.pay_len,
                reply_app,
            });
        }
        map.into_values().collect()
    }
}
