//! The one PRNG of the simulator (xoshiro256**, seeded through splitmix64).
//! Every choice of a run - plan, workload, schedule, faults - is drawn from
//! an instance derived from (base seed, property, run index). Nothing else
//! in the simulator is allowed to be a source of nondeterminism.

#[derive(Clone, Debug)]
pub struct Rng {
    s: [u64; 4],
    pub draws: u64,
}

pub fn splitmix64(x: &mut u64) -> u64 {
    *x = x.wrapping_add(0x9E3779B97F4A7C15);
    let mut z = *x;
    z = (z ^ (z >> 30)).wrapping_mul(0xBF58476D1CE4E5B9);
    z = (z ^ (z >> 27)).wrapping_mul(0x94D049BB133111EB);
    z ^ (z >> 31)
}

/// Derive the seed of run `idx` of `label` from the base seed.
pub fn derive(base: u64, label: &str, idx: u64) -> u64 {
    let mut x = base ^ 0x6d63_7369_6d5f_7631;
    let mut h = splitmix64(&mut x);
    for b in label.bytes() {
        x = h ^ (b as u64).wrapping_mul(0x100000001b3);
        h = splitmix64(&mut x);
    }
    x = h ^ idx.wrapping_mul(0xD6E8FEB86659FD93);
    splitmix64(&mut x)
}

impl Rng {
    pub fn new(seed: u64) -> Rng {
        let mut x = seed;
        let s = [
            splitmix64(&mut x),
            splitmix64(&mut x),
            splitmix64(&mut x),
            splitmix64(&mut x),
        ];
        Rng { s, draws: 0 }
    }
    /// Independent stream for a sub-component, derived (not drawn) from self's seed state.
    pub fn fork(&mut self, label: &str) -> Rng {
        let a = self.u64();
        Rng::new(derive(a, label, 0))
    }
    pub fn u64(&mut self) -> u64 {
        self.draws += 1;
        let s = &mut self.s;
        let result = s[1].wrapping_mul(5).rotate_left(7).wrapping_mul(9);
        let t = s[1] << 17;
        s[2] ^= s[0];
        s[3] ^= s[1];
        s[1] ^= s[2];
        s[0] ^= s[3];
        s[2] ^= t;
        s[3] = s[3].rotate_left(45);
        result
    }
    pub fn u32(&mut self) -> u32 {
        (self.u64() >> 32) as u32
    }
    pub fn u16(&mut self) -> u16 {
        (self.u64() >> 48) as u16
    }
    pub fn u8(&mut self) -> u8 {
        (self.u64() >> 56) as u8
    }
    /// uniform in [0, n) (n > 0)
    pub fn below(&mut self, n: u64) -> u64 {
        debug_assert!(n > 0);
        // multiply-shift; bias is irrelevant here
        ((self.u64() as u128 * n as u128) >> 64) as u64
    }
    pub fn usize_below(&mut self, n: usize) -> usize {
        self.below(n as u64) as usize
    }
    /// uniform in [lo, hi] inclusive
    pub fn range(&mut self, lo: u64, hi: u64) -> u64 {
        lo + self.below(hi - lo + 1)
    }
    /// true with probability num/den
    pub fn chance(&mut self, num: u64, den: u64) -> bool {
        self.below(den) < num
    }
    pub fn pick<'a, T>(&mut self, xs: &'a [T]) -> &'a T {
        &xs[self.usize_below(xs.len())]
    }
    pub fn weighted(&mut self, weights: &[u32]) -> usize {
        let total: u64 = weights.iter().map(|w| *w as u64).sum();
        if total == 0 {
            return 0;
        }
        let mut r = self.below(total);
        for (i, w) in weights.iter().enumerate() {
            if r < *w as u64 {
                return i;
            }
            r -= *w as u64;
        }
        weights.len() - 1
    }
    pub fn bytes(&mut self, n: usize) -> Vec<u8> {
        let mut v = Vec::with_capacity(n);
        while v.len() < n {
            let x = self.u64().to_le_bytes();
            let take = (n - v.len()).min(8);
            v.extend_from_slice(&x[..take]);
        }
        v
    }
    pub fn bytes_range(&mut self, lo: u64, hi: u64) -> Vec<u8> {
        let n = self.range(lo, hi) as usize;
        self.bytes(n)
    }
    pub fn bytes_mul(&mut self, below: u64, mul: usize) -> Vec<u8> {
        let n = self.below(below) as usize * mul;
        self.bytes(n)
    }
    pub fn shuffle<T>(&mut self, xs: &mut [T]) {
        for i in (1..xs.len()).rev() {
            let j = self.usize_below(i + 1);
            xs.swap(i, j);
        }
    }
    /// value biased to boundaries of a u32 space
    pub fn edge_u32(&mut self) -> u32 {
        match self.below(10) {
            0 => 0,
            1 => 1,
            2 => 0x7fff_ffff,
            3 => 0x8000_0000,
            4 => 0xffff_fffe,
            5 => 0xffff_ffff,
            _ => self.u32(),
        }
    }
    pub fn edge_port(&mut self) -> u16 {
        // boundary values and the well-known ports of the protocols the responder speaks (a
        // responder must not care, so these are exactly where a special case would hide)
        const PORTS: [u16; 20] = [0, 1, 22, 53, 80, 111, 135, 139, 443, 445, 1023, 1024, 2049, 3478, 5353, 8080, 32768, 49152, 65534, 65535];
        if self.below(3) < 2 {
            PORTS[self.below(PORTS.len() as u64) as usize]
        } else {
            self.u16()
        }
    }
}
