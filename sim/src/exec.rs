//! Schedules, histories and their execution against the node.
//!
//! A *schedule* is the explicit list of things that happened to the node:
//! clock settings, delivered frames, soft restarts (table forgotten) and hard
//! restarts (process killed and respawned). Because the node is a
//! deterministic function of (configuration, schedule), a schedule is also
//! the replay file: no PRNG is needed to reproduce a run.

use serde_json::{json, Value};

use crate::node::{Build, Config, Death, Node, NodeBins, Obs};
use crate::wire::{hex, unhex};

#[derive(Clone, Debug, PartialEq, Eq)]
pub enum Step {
    Clock(u64),
    /// elapsed (monotonic) time of the node in microseconds since the run began: wall-clock
    /// jumps do not move it (only the preloaded clock shim reads it)
    Mono(u64),
    Frame(Vec<u8>),
    Soft,
    Hard,
}

impl Step {
    pub fn to_json(&self) -> Value {
        match self {
            Step::Clock(ms) => json!({"T": ms}),
            Step::Mono(us) => json!({"M": us}),
            Step::Frame(f) => json!({"F": hex(f)}),
            Step::Soft => json!({"X": "soft"}),
            Step::Hard => json!({"X": "hard"}),
        }
    }
    pub fn from_json(v: &Value) -> Option<Step> {
        if let Some(ms) = v.get("T") {
            return Some(Step::Clock(ms.as_u64()?));
        }
        if let Some(us) = v.get("M") {
            return Some(Step::Mono(us.as_u64()?));
        }
        if let Some(f) = v.get("F") {
            return Some(Step::Frame(unhex(f.as_str()?)?));
        }
        if let Some(x) = v.get("X") {
            return Some(if x.as_str()? == "hard" {
                Step::Hard
            } else {
                Step::Soft
            });
        }
        None
    }
}

#[derive(Clone, Debug)]
pub struct Record {
    pub step: Step,
    /// observation for Frame steps that were answered by the node (None for
    /// other steps, and for the frame that killed the node and all later ones)
    pub obs: Option<Obs>,
    /// wall clock of the node when the step was executed
    pub clock: u64,
    /// restart epoch (number of restarts before this step)
    pub epoch: u32,
}

#[derive(Clone, Debug)]
pub struct History {
    pub config: Config,
    pub start_ms: u64,
    pub recs: Vec<Record>,
    /// index of the Frame step at which the node died or hung, with the post-mortem
    pub death: Option<(usize, Death)>,
}

impl History {
    pub fn new(config: Config, start_ms: u64) -> History {
        History {
            config,
            start_ms,
            recs: Vec::new(),
            death: None,
        }
    }
    pub fn steps(&self) -> Vec<Step> {
        self.recs.iter().map(|r| r.step.clone()).collect()
    }
    pub fn frames(&self) -> usize {
        self.recs
            .iter()
            .filter(|r| matches!(r.step, Step::Frame(_)))
            .count()
    }
}

#[derive(Debug)]
pub enum ExecError {
    /// the harness could not start or talk to the node (never a violation)
    Harness(String),
}

pub struct Executor<'a> {
    bins: &'a NodeBins,
    node: Option<Node>,
    /// a live node of the other build, parked (starting a process costs a matcher compilation)
    parked: Option<Node>,
    cfg: Option<Config>,
    nonce: String,
    clock: u64,
    epoch: u32,
    pub spawned: u64,
}

impl<'a> Executor<'a> {
    pub fn new(bins: &'a NodeBins) -> Executor<'a> {
        Executor {
            bins,
            node: None,
            parked: None,
            cfg: None,
            nonce: String::new(),
            clock: 0,
            epoch: 0,
            spawned: 0,
        }
    }

    fn spawn(&mut self, build: Build) -> Result<(), ExecError> {
        let n = Node::spawn(self.bins, build)
            .map_err(|e| ExecError::Harness(format!("cannot start node {:?}: {}", self.bins.path(build), e)))?;
        self.node = Some(n);
        self.spawned += 1;
        Ok(())
    }

    /// Start a run: a node of the right build, freshly configured, empty table.
    pub fn begin(&mut self, cfg: &Config, start_ms: u64, nonce: &str) -> Result<(), ExecError> {
        let reuse = match &self.node {
            Some(n) => !n.is_dead() && n.build == cfg.build,
            None => false,
        };
        if !reuse {
            // swap with the parked node if that one has the wanted build and is alive
            let parked_ok = match &self.parked {
                Some(n) => !n.is_dead() && n.build == cfg.build,
                None => false,
            };
            let old = self.node.take();
            if parked_ok {
                self.node = self.parked.take();
            }
            self.parked = match old {
                Some(n) if !n.is_dead() => Some(n),
                _ => None,
            };
            if self.node.is_none() {
                self.spawn(cfg.build)?;
            }
        }
        self.cfg = Some(cfg.clone());
        self.nonce = nonce.to_string();
        self.clock = start_ms;
        self.epoch = 0;
        let r = self.node.as_mut().unwrap().configure(cfg, start_ms, nonce);
        if let Err(d) = r {
            // one retry with a fresh process, then give up: harness error
            self.node = None;
            self.spawn(cfg.build)?;
            self.node
                .as_mut()
                .unwrap()
                .configure(cfg, start_ms, nonce)
                .map_err(|d2| ExecError::Harness(format!("node does not configure: {:?} / {:?}", d, d2)))?;
        }
        Ok(())
    }

    pub fn clock(&self) -> u64 {
        self.clock
    }
    pub fn epoch(&self) -> u32 {
        self.epoch
    }

    /// Execute one step. Ok(Some(obs)) for an answered frame, Ok(None) for the
    /// other steps, Err(death) if the node died or hung on this frame.
    pub fn step(&mut self, step: &Step) -> Result<Result<Option<Obs>, Death>, ExecError> {
        let node = self.node.as_mut().ok_or_else(|| ExecError::Harness("no node".into()))?;
        match step {
            Step::Clock(ms) => {
                self.clock = *ms;
                Ok(node.set_clock(*ms).map(|_| None))
            }
            Step::Mono(us) => Ok(node.set_mono(*us).map(|_| None)),
            Step::Frame(f) => Ok(node.frame(f).map(Some)),
            Step::Soft => {
                self.epoch += 1;
                Ok(node.soft_reset().map(|_| None))
            }
            Step::Hard => {
                self.epoch += 1;
                node.kill();
                let cfg = self.cfg.clone().unwrap();
                self.node = None;
                self.spawn(cfg.build)?;
                let nonce = self.nonce.clone();
                let clock = self.clock;
                let r = self.node.as_mut().unwrap().configure(&cfg, clock, &nonce);
                match r {
                    Ok(_) => Ok(Ok(None)),
                    Err(d) => Err(ExecError::Harness(format!("node does not restart: {:?}", d))),
                }
            }
        }
    }

    /// Run a whole schedule on a freshly configured node.
    pub fn run(&mut self, cfg: &Config, start_ms: u64, nonce: &str, steps: &[Step]) -> Result<History, ExecError> {
        self.begin(cfg, start_ms, nonce)?;
        let mut h = History::new(cfg.clone(), start_ms);
        for (i, s) in steps.iter().enumerate() {
            let clock = self.clock;
            let epoch = self.epoch;
            if h.death.is_some() {
                h.recs.push(Record {
                    step: s.clone(),
                    obs: None,
                    clock,
                    epoch,
                });
                continue;
            }
            match self.step(s)? {
                Ok(obs) => h.recs.push(Record {
                    step: s.clone(),
                    obs,
                    clock: self.clock,
                    epoch: self.epoch,
                }),
                Err(d) => {
                    h.recs.push(Record {
                        step: s.clone(),
                        obs: None,
                        clock,
                        epoch,
                    });
                    h.death = Some((i, d));
                }
            }
        }
        Ok(h)
    }

    pub fn node_mut(&mut self) -> Option<&mut Node> {
        self.node.as_mut()
    }

    /// Make sure a live node with this configuration is available for probes.
    pub fn ensure(&mut self, cfg: &Config, start_ms: u64, nonce: &str) -> Result<&mut Node, ExecError> {
        self.begin(cfg, start_ms, nonce)?;
        Ok(self.node.as_mut().unwrap())
    }
}
