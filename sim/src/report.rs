//! Replay files, known findings and evidence files.

use std::collections::BTreeMap;
use std::path::{Path, PathBuf};

use serde_json::{json, Value};

use crate::exec::{History, Step};
use crate::node::Config;
use crate::oracle::Violation;

#[derive(Clone, Debug)]
pub struct ReplayFile {
    pub property: String,
    pub rule: String,
    pub key: String,
    pub seed: u64,
    pub config: Config,
    pub start_ms: u64,
    pub steps: Vec<Step>,
    pub detail: String,
    pub fault_trace: Vec<String>,
    pub original_steps: usize,
    /// selector used by oracles that sample or generate inside the judgement (restriction
    /// replay candidates, matcher walks): part of the replay so that re-judging is identical
    pub pick: u64,
}

impl ReplayFile {
    pub fn to_json(&self) -> Value {
        json!({
            "property": self.property,
            "rule": self.rule,
            "key": self.key,
            "seed": self.seed,
            "config": self.config.to_json(),
            "start_ms": self.start_ms,
            "steps": self.steps.iter().map(|s| s.to_json()).collect::<Vec<_>>(),
            "observed": self.detail,
            "fault_trace": self.fault_trace,
            "original_steps": self.original_steps,
            "aux_pick": format!("{:016x}", self.pick),
            "format": "explicit delivered schedule: T=set wall clock (ms), M=set elapsed monotonic time (us), F=frame (hex), X=restart soft|hard",
        })
    }
    pub fn from_json(v: &Value) -> Option<ReplayFile> {
        Some(ReplayFile {
            property: v.get("property")?.as_str()?.to_string(),
            rule: v.get("rule").and_then(|x| x.as_str()).unwrap_or("").to_string(),
            key: v.get("key")?.as_str()?.to_string(),
            seed: v.get("seed").and_then(|x| x.as_u64()).unwrap_or(0),
            config: Config::from_json(v.get("config")?)?,
            start_ms: v.get("start_ms")?.as_u64()?,
            steps: v
                .get("steps")?
                .as_array()?
                .iter()
                .map(Step::from_json)
                .collect::<Option<Vec<_>>>()?,
            detail: v.get("observed").and_then(|x| x.as_str()).unwrap_or("").to_string(),
            fault_trace: Vec::new(),
            original_steps: v.get("original_steps").and_then(|x| x.as_u64()).unwrap_or(0) as usize,
            pick: v
                .get("aux_pick")
                .and_then(|x| x.as_str())
                .and_then(|x| u64::from_str_radix(x, 16).ok())
                .unwrap_or_else(|| crate::rng::derive(v.get("seed").and_then(|x| x.as_u64()).unwrap_or(0), "aux", 0)),
        })
    }
    pub fn load(p: &Path) -> Result<ReplayFile, String> {
        let s = std::fs::read_to_string(p).map_err(|e| format!("{}: {}", p.display(), e))?;
        let v: Value = serde_json::from_str(&s).map_err(|e| format!("{}: {}", p.display(), e))?;
        ReplayFile::from_json(&v).ok_or_else(|| format!("{}: not a replay file", p.display()))
    }
    pub fn save(&self, p: &Path) -> std::io::Result<()> {
        if let Some(d) = p.parent() {
            std::fs::create_dir_all(d)?;
        }
        std::fs::write(p, serde_json::to_string_pretty(&self.to_json()).unwrap() + "\n")
    }
}

#[derive(Clone, Debug)]
pub struct KnownFinding {
    pub property: String,
    pub key: String,
    pub status: String, // known | fixed
    pub what: String,
    pub replay: Option<String>,
    pub commit: Option<String>,
}

pub fn load_known(path: &Path) -> Vec<KnownFinding> {
    let s = match std::fs::read_to_string(path) {
        Ok(s) => s,
        Err(_) => return Vec::new(),
    };
    let v: Value = match serde_json::from_str(&s) {
        Ok(v) => v,
        Err(_) => return Vec::new(),
    };
    let mut out = Vec::new();
    if let Some(a) = v.get("findings").and_then(|x| x.as_array()) {
        for e in a {
            let g = |k: &str| e.get(k).and_then(|x| x.as_str()).map(|s| s.to_string());
            if let (Some(property), Some(key), Some(status)) = (g("property"), g("key"), g("status")) {
                out.push(KnownFinding {
                    property,
                    key,
                    status,
                    what: g("what").unwrap_or_default(),
                    replay: g("replay"),
                    commit: g("commit"),
                });
            }
        }
    }
    out
}

pub fn slug(s: &str) -> String {
    s.chars()
        .map(|c| if c.is_ascii_alphanumeric() || c == '-' || c == '.' { c } else { '_' })
        .collect()
}

pub fn replay_path(root: &Path, v: &Violation, seed: u64, n: usize) -> PathBuf {
    root.join("replays").join(format!("{}-{}-{:016x}-{}.json", v.prop, slug(&v.key), seed, n))
}

/// Short human-readable rendering of a delivered schedule for the evidence samples.
pub fn sample_history(h: &History, max: usize) -> Vec<String> {
    let mut out = Vec::new();
    for r in h.recs.iter() {
        if out.len() >= max {
            out.push(format!("... {} more steps", h.recs.len() - max));
            break;
        }
        match &r.step {
            Step::Clock(ms) => out.push(format!("T {}", ms)),
            Step::Mono(us) => out.push(format!("M {}", us)),
            Step::Soft => out.push("X soft".into()),
            Step::Hard => out.push("X hard".into()),
            Step::Frame(f) => {
                let hx = crate::wire::hex(&f[..f.len().min(48)]);
                let rep = match &r.obs {
                    Some(o) => match &o.reply {
                        Some(x) => format!("reply {}B", x.len()),
                        None => "silence".into(),
                    },
                    None => "NO ANSWER".into(),
                };
                out.push(format!("F {}B {}{} -> {}", f.len(), hx, if f.len() > 48 { ".." } else { "" }, rep));
            }
        }
    }
    out
}

pub fn top(m: &BTreeMap<String, u64>, n: usize) -> Value {
    let mut v: Vec<(&String, &u64)> = m.iter().collect();
    v.sort_by(|a, b| b.1.cmp(a.1).then(a.0.cmp(b.0)));
    Value::Object(v.into_iter().take(n).map(|(k, c)| (k.clone(), json!(c))).collect())
}
