//! Network faults applied to frames in flight. Every firing is counted.

use std::collections::BTreeMap;
use std::net::IpAddr;

use crate::rng::Rng;
use crate::wire::*;
use crate::world::plan::FaultCfg;

#[derive(Clone, Debug, Default)]
pub struct FaultStats {
    pub fired: BTreeMap<&'static str, u64>,
}

impl FaultStats {
    pub fn hit(&mut self, k: &'static str) {
        *self.fired.entry(k).or_insert(0) += 1;
    }
    pub fn merge(&mut self, o: &FaultStats) {
        for (k, v) in &o.fired {
            *self.fired.entry(k).or_insert(0) += v;
        }
    }
}

/// Header boundaries of a frame (offsets at which a cut is interesting).
fn boundaries(f: &[u8]) -> Vec<usize> {
    let p = parse(f);
    let mut v = vec![0, 6, 12, 13, 14];
    match &p.l3 {
        L3::V4(h) => {
            v.extend_from_slice(&[14 + 1, 14 + 19, 14 + 20, 14 + h.ihl as usize * 4]);
            v.push(h.pay_off);
        }
        L3::V6(h) => {
            v.extend_from_slice(&[14 + 39, 14 + 40]);
            v.push(h.pay_off);
        }
        L3::Arp(_) => v.extend_from_slice(&[14 + 8, 14 + 27, 14 + 28]),
        _ => {}
    }
    match &p.l4 {
        L4::Tcp(t) => {
            v.extend_from_slice(&[t.seg_off + 19, t.seg_off + 20, t.pay_off, t.pay_off + 1, t.pay_off + 4]);
        }
        L4::Udp(u) => v.extend_from_slice(&[u.seg_off + 7, u.seg_off + 8, u.pay_off + 1, u.pay_off + 12, u.pay_off + 20]),
        L4::Icmp4(i) | L4::Icmp6(i) => {
            v.extend_from_slice(&[i.seg_off + 3, i.seg_off + 4, i.seg_off + 8, i.seg_off + 23, i.seg_off + 24])
        }
        _ => {}
    }
    v.retain(|x| *x <= f.len());
    v
}

/// Apply in-flight mangling faults to a frame travelling towards the node.
pub fn mangle(f: &mut Vec<u8>, cfg: &FaultCfg, rng: &mut Rng, st: &mut FaultStats) {
    if f.is_empty() {
        return;
    }
    if cfg.misdeliver_pm > 0 && rng.below(1000) < cfg.misdeliver_pm && f.len() >= 6 {
        // the switch floods / the NIC is promiscuous: a frame for somebody else arrives
        match rng.below(3) {
            0 => {
                let b = rng.bytes(6);
                f[..6].copy_from_slice(&b);
                f[0] &= 0xfe;
            }
            1 => {
                let bit = rng.below(48) as usize;
                f[bit / 8] ^= 1 << (bit % 8);
            }
            _ => {
                f[0] = 0x01;
                f[1] = 0x00;
                f[2] = 0x5e;
            }
        }
        st.hit("misdeliver");
    }
    if cfg.ipvary_pm > 0 && rng.below(1000) < cfg.ipvary_pm && f.len() >= 34 {
        // a middlebox / odd sender: header fields that carry no meaning for the responder
        let et = ((f[12] as u16) << 8) | f[13] as u16;
        if rng.chance(1, 8) {
            // a trunk port: the frame arrives with an 802.1Q / 802.1ad tag (or two) in front of its
            // EtherType - the frame's EtherType is then not one of the three the responder handles
            let n = if rng.chance(1, 4) { 2 } else { 1 };
            for k in 0..n {
                let tpid = if n == 2 && k == 1 { 0x88a8u16 } else { *rng.pick(&[0x8100u16, 0x8100, 0x8100, 0x88a8, 0x9100]) };
                let tci = *rng.pick(&[0u16, 1, 100, 0x0fff, 0x2001, 0xe00a]);
                let tail = f.split_off(12);
                f.extend_from_slice(&tpid.to_be_bytes());
                f.extend_from_slice(&tci.to_be_bytes());
                f.extend_from_slice(&tail);
            }
            st.hit("vlan-tag");
        } else if et == ET_IP4 {
            let ihl = (f[14] & 0x0f) as usize * 4;
            if ihl >= 20 && 14 + ihl <= f.len() {
                match rng.below(4) {
                    0 => {
                        let v = *rng.pick(&[0x0000u16, 0x2000, 0x8000, 0x6000, 0xa000, 0x2001, 0x00b9, 0xe000]);
                        f[20..22].copy_from_slice(&v.to_be_bytes());
                    }
                    1 => f[15] = rng.u8(),
                    2 => {
                        let v = rng.u16();
                        f[18..20].copy_from_slice(&v.to_be_bytes());
                    }
                    _ => f[22] = *rng.pick(&[0u8, 1, 255]),
                }
                f[24] = 0;
                f[25] = 0;
                let c = inet_csum(&f[14..14 + ihl]);
                f[24..26].copy_from_slice(&c.to_be_bytes());
                st.hit("ip-header-variation");
            }
        } else if et == ET_IP6 && f.len() >= 54 && rng.chance(1, 4) {
            // an extension header (hop-by-hop, routing, destination options, fragment) between the
            // IPv6 header and the transport header: the packet's next protocol is then not one the
            // responder supports, whatever comes behind
            let nh = f[20];
            let ext_type = *rng.pick(&[0u8, 43, 60, 44]);
            let ext: Vec<u8> = if ext_type == 44 {
                vec![nh, 0, 0, 0, 0x12, 0x34, 0x56, 0x78]
            } else if ext_type == 43 {
                vec![nh, 0, 0, 0, 0, 0, 0, 0]
            } else {
                vec![nh, 0, 1, 4, 0, 0, 0, 0]
            };
            f[20] = ext_type;
            let pl = (((f[18] as usize) << 8) | f[19] as usize) + 8;
            f[18] = (pl >> 8) as u8;
            f[19] = pl as u8;
            let tail = f.split_off(54);
            f.extend_from_slice(&ext);
            f.extend_from_slice(&tail);
            st.hit("ipv6-extension-header");
        } else if et == ET_IP6 && f.len() >= 54 {
            match rng.below(3) {
                0 => {
                    let b = rng.bytes(3);
                    f[14] = 0x60 | (b[0] & 0x0f);
                    f[15] = b[1];
                    f[16] = b[2];
                }
                1 => f[17] = rng.u8(),
                _ => f[21] = *rng.pick(&[0u8, 1, 255]),
            }
            st.hit("ip-header-variation");
        }
    }
    if cfg.corrupt_pm > 0 && rng.below(1000) < cfg.corrupt_pm {
        let n = rng.range(1, 3);
        for _ in 0..n {
            // bias: half of the flips land in the headers
            let i = if rng.chance(1, 2) { rng.usize_below(f.len().min(74)) } else { rng.usize_below(f.len()) };
            f[i] ^= 1 << rng.below(8);
        }
        st.hit("corrupt");
    }
    if cfg.lenlie_pm > 0 && rng.below(1000) < cfg.lenlie_pm {
        let p = parse(f);
        let mut done = false;
        match (&p.l3, &p.l4) {
            (L3::V4(h), l4) => match rng.below(4) {
                0 => {
                    let v = lie16(h.total_len, rng);
                    f[16..18].copy_from_slice(&v.to_be_bytes());
                    done = true;
                }
                1 => {
                    f[14] = (f[14] & 0xf0) | (rng.u8() & 0x0f);
                    done = true;
                }
                _ => done = lie_l4(f, l4, rng),
            },
            (L3::V6(h), l4) => match rng.below(3) {
                0 => {
                    let v = lie16(h.payload_len, rng);
                    f[18..20].copy_from_slice(&v.to_be_bytes());
                    done = true;
                }
                _ => done = lie_l4(f, l4, rng),
            },
            (L3::Arp(_), _) => {
                let i = 14 + 4 + rng.usize_below(2);
                f[i] = rng.u8();
                done = true;
            }
            _ => {}
        }
        if done {
            st.hit("length-lie");
        }
    }
    if cfg.truncate_pm > 0 && rng.below(1000) < cfg.truncate_pm {
        let k = if rng.chance(2, 3) {
            let b = boundaries(f);
            let x = *rng.pick(&b);
            if rng.chance(1, 3) {
                x.saturating_sub(1)
            } else {
                x
            }
        } else {
            rng.usize_below(f.len())
        };
        f.truncate(k.min(f.len()));
        st.hit("truncate");
    }
    if cfg.pad_pm > 0 && rng.below(1000) < cfg.pad_pm && f.len() < 4000 {
        let n = if f.len() < 60 && rng.chance(2, 3) { 60 - f.len() } else { rng.range(1, 46) as usize };
        if rng.chance(1, 2) {
            f.extend(std::iter::repeat(0).take(n));
        } else {
            let b = rng.bytes(n);
            f.extend_from_slice(&b);
        }
        st.hit("pad");
    }
    if f.len() > 4096 {
        f.truncate(4096);
    }
}

fn lie16(v: u16, rng: &mut Rng) -> u16 {
    match rng.below(6) {
        0 => 0,
        1 => v.wrapping_sub(1),
        2 => v.wrapping_add(1),
        3 => 0xffff,
        4 => v / 2,
        _ => rng.u16(),
    }
}

fn lie_l4(f: &mut Vec<u8>, l4: &L4, rng: &mut Rng) -> bool {
    match l4 {
        L4::Tcp(t) => {
            let i = t.seg_off + 12;
            f[i] = (f[i] & 0x0f) | (rng.u8() & 0xf0);
            true
        }
        L4::Udp(u) => {
            let i = u.seg_off + 4;
            let v = lie16(u.len, rng);
            f[i..i + 2].copy_from_slice(&v.to_be_bytes());
            true
        }
        _ => false,
    }
}

/// A peer bounces a reply of the node back at it: Ethernet, IP and port pairs swapped,
/// checksums recomputed (what a reflector - or a second responder - would emit).
pub fn reflect(reply: &[u8]) -> Option<Vec<u8>> {
    let p = parse(reply);
    let e = p.eth.as_ref()?;
    match &p.l3 {
        L3::Arp(_) => {
            // an ARP reply sent back verbatim with swapped Ethernet addresses
            Some(eth(&e.src, &e.dst, ET_ARP, &reply[14..]))
        }
        L3::V4(_) | L3::V6(_) => {
            let src = p.ip_dst()?;
            let dst = p.ip_src()?;
            let (proto, seg): (u8, Vec<u8>) = match &p.l4 {
                L4::Tcp(t) => {
                    let pay = &reply[t.pay_off..t.pay_off + t.pay_len];
                    let f = TcpFields {
                        sport: t.dport,
                        dport: t.sport,
                        seq: t.seq,
                        ack: t.ack,
                        flags: t.flags,
                        window: t.window,
                        urg: t.urg,
                        options: Vec::new(),
                    };
                    (P_TCP, tcp(&f, pay, &src, &dst))
                }
                L4::Udp(u) => {
                    let pay = &reply[u.pay_off..u.pay_off + u.pay_len];
                    (P_UDP, udp(u.dport, u.sport, pay, &src, &dst))
                }
                L4::Icmp4(i) => {
                    let rest = &reply[i.rest_off..i.rest_off + i.rest_len];
                    (P_ICMP, icmp4(i.ty, i.code, rest))
                }
                L4::Icmp6(i) => {
                    let rest = &reply[i.rest_off..i.rest_off + i.rest_len];
                    match (&src, &dst) {
                        (IpAddr::V6(s), IpAddr::V6(d)) => (P_ICMP6, icmp6(i.ty, i.code, rest, s, d)),
                        _ => return None,
                    }
                }
                _ => return None,
            };
            let ttl = match &p.l3 {
                L3::V4(h) => h.ttl,
                L3::V6(h) => h.hlim,
                _ => 64,
            };
            Some(frame_ip(&e.src, &e.dst, &src, &dst, proto, &seg, ttl))
        }
        _ => None,
    }
}

/// An ICMP error about one of the node's own replies, as the peer or a router on the way would
/// send it: it quotes the reply's IP header and the first bytes behind it (8, or as much as fits).
/// ICMP errors are reply-marked messages of no concern to the responder: they must change nothing.
pub fn icmp_error_for(reply: &[u8], rng: &mut Rng) -> Option<Vec<u8>> {
    let p = parse(reply);
    let e = p.eth.as_ref()?;
    let node_ip = p.ip_src()?;
    let peer_ip = p.ip_dst()?;
    match (&p.l3, &node_ip, &peer_ip) {
        (L3::V4(h), IpAddr::V4(_), IpAddr::V4(_)) => {
            if !matches!(p.l4, L4::Tcp(_) | L4::Udp(_) | L4::Icmp4(_)) {
                return None;
            }
            let ip_hdr_end = h.pay_off;
            let quote_end = if rng.chance(2, 3) { (ip_hdr_end + 8).min(reply.len()) } else { reply.len().min(14 + 548) };
            let mut rest = vec![0u8; 4];
            rest.extend_from_slice(&reply[14..quote_end]);
            let (ty, code) = match rng.below(6) {
                0 => (3u8, 3u8),  // port unreachable
                1 => (3, 2),      // protocol unreachable
                2 => (3, rng.below(16) as u8),
                3 => (11, rng.below(2) as u8),
                4 => (12, 0),
                _ => (*rng.pick(&[4u8, 5, 3]), rng.below(4) as u8),
            };
            if ty == 3 && code == 4 {
                rest[2] = 0x05;
                rest[3] = 0x78; // next-hop MTU 1400
            }
            let seg = icmp4(ty, code, &rest);
            Some(frame_ip(&e.src, &e.dst, &peer_ip, &node_ip, P_ICMP, &seg, 64))
        }
        (L3::V6(h), IpAddr::V6(ps), IpAddr::V6(pd)) => {
            if !matches!(p.l4, L4::Tcp(_) | L4::Udp(_) | L4::Icmp6(_)) {
                return None;
            }
            let _ = h;
            let quote_end = reply.len().min(14 + 1232);
            let mut rest = vec![0u8; 4];
            rest.extend_from_slice(&reply[14..quote_end]);
            let (ty, code) = match rng.below(4) {
                0 => (1u8, 4u8), // port unreachable
                1 => (1, rng.below(7) as u8),
                2 => (3, 0),
                _ => (*rng.pick(&[2u8, 4]), 0),
            };
            if ty == 2 {
                rest[2] = 0x05;
                rest[3] = 0x00;
            }
            // the error travels from the reply's destination (the peer) to its source (the node)
            let seg = icmp6(ty, code, &rest, pd, ps);
            Some(frame_ip(&e.src, &e.dst, &peer_ip, &node_ip, P_ICMP6, &seg, 64))
        }
        _ => None,
    }
}
