//! Per-run plan, drawn swarm-style from the run's PRNG: configuration of the
//! node, peers, fault mix and knobs. `Focus` biases the workload towards what
//! a property needs without ever removing the rest.

use std::net::{IpAddr, Ipv4Addr, Ipv6Addr};

use crate::apps::{App, Flavor};
use crate::node::{Build, Config, LoggerKind};
use crate::rng::Rng;
use crate::wire::Mac;

#[derive(Clone, Copy, Debug, PartialEq, Eq, Hash, PartialOrd, Ord)]
pub enum ActorKind {
    Arp,
    Nd,
    Ping,
    TcpClient,
    UdpClient,
    Scanner,
    Noise,
    CookiePairs,
    Flood,
}

#[derive(Clone, Debug)]
pub struct Focus {
    pub actors: Vec<(ActorKind, u32)>,
    pub apps: Vec<(App, u32)>,
    pub flavors: Vec<(Flavor, u32)>,
    pub n_actors: (u64, u64),
    /// per-mille of runs with a real logger attached
    pub logger_pm: u64,
    /// per-mille of runs without any network fault
    pub fault_free_pm: u64,
    /// multiplier (percent) on mangling faults (corrupt/truncate/length lies)
    pub mangle_pct: u64,
    /// per-mille chance that an application client gets a twin (same payload, other ports /
    /// IP version / segmentation)
    pub twin_pm: u64,
    /// per-mille chance per reply to be reflected back at the node
    pub reflect_pm: u64,
    /// per-mille of TCP clients that cut their stream into several segments
    pub segment_pm: u64,
    /// per-mille of actors aimed at out-of-scope destinations or sent by denied peers
    pub offscope_pm: u64,
    pub max_frames: usize,
    /// per-mille of runs in which a mass banner scan (hundreds to thousands of validated
    /// connections, as the scanners this responder is made for produce) takes place
    pub mass_scan_pm: u64,
    /// restrict node build (None = both)
    pub build: Option<Build>,
}

impl Focus {
    pub fn base() -> Focus {
        Focus {
            actors: vec![
                (ActorKind::Arp, 10),
                (ActorKind::Nd, 10),
                (ActorKind::Ping, 10),
                (ActorKind::TcpClient, 30),
                (ActorKind::UdpClient, 25),
                (ActorKind::Scanner, 10),
                (ActorKind::Noise, 5),
                (ActorKind::CookiePairs, 2),
                (ActorKind::Flood, 1),
            ],
            apps: vec![
                (App::Http, 10),
                (App::Ssh, 10),
                (App::Ghost, 5),
                (App::Stun, 10),
                (App::Dns, 10),
                (App::Rpc, 10),
                (App::Smb1, 8),
                (App::Smb2, 8),
                (App::Noise, 4),
            ],
            flavors: vec![
                (Flavor::Valid, 60),
                (Flavor::Fault, 20),
                (Flavor::ResponseTyped, 8),
                (Flavor::Hostile, 12),
            ],
            n_actors: (3, 10),
            logger_pm: 300,
            fault_free_pm: 150,
            mangle_pct: 100,
            twin_pm: 100,
            reflect_pm: 20,
            segment_pm: 400,
            offscope_pm: 150,
            max_frames: 160,
            mass_scan_pm: 0,
            build: None,
        }
    }

    fn only_apps(mut self, apps: &[(App, u32)]) -> Focus {
        self.apps = apps.to_vec();
        self
    }
    fn boost(mut self, k: ActorKind, w: u32) -> Focus {
        for a in self.actors.iter_mut() {
            if a.0 == k {
                a.1 = w;
            }
        }
        self
    }

    /// Workload bias per property.
    pub fn for_property(prop: &str) -> Focus {
        let b = Focus::base();
        match prop {
            "C01" => {
                let mut f = b.boost(ActorKind::Noise, 15);
                f.flavors = vec![
                    (Flavor::Valid, 30),
                    (Flavor::Fault, 20),
                    (Flavor::ResponseTyped, 10),
                    (Flavor::Hostile, 40),
                ];
                f.mangle_pct = 300;
                f.logger_pm = 500;
                f.fault_free_pm = 30;
                f
            }
            "C02" => {
                let mut f = b;
                f.offscope_pm = 550;
                f
            }
            "C03" | "C04" => {
                let mut f = b;
                f.flavors = vec![(Flavor::Valid, 85), (Flavor::Fault, 10), (Flavor::Hostile, 5)];
                f.mangle_pct = 50;
                f
            }
            "C05" => {
                let mut f = b
                    .boost(ActorKind::Arp, 40)
                    .boost(ActorKind::Nd, 40)
                    .boost(ActorKind::Ping, 40)
                    .boost(ActorKind::TcpClient, 8)
                    .boost(ActorKind::UdpClient, 8);
                f.mangle_pct = 40;
                f
            }
            "C06" => {
                let mut f = b
                    .boost(ActorKind::Scanner, 40)
                    .boost(ActorKind::CookiePairs, 25)
                    .boost(ActorKind::TcpClient, 25);
                f.mangle_pct = 30;
                f
            }
            "C07" | "C08" => {
                let mut f = b.boost(ActorKind::Scanner, 25).boost(ActorKind::TcpClient, 60);
                f.mangle_pct = 30;
                f.n_actors = (4, 12);
                if prop == "C08" {
                    // the same request again from / towards a slightly different endpoint
                    f.twin_pm = 350;
                }
                f.mass_scan_pm = if prop == "C08" { 25 } else { 8 };
                f
            }
            "C09" => {
                let mut f = b
                    .boost(ActorKind::Flood, 25)
                    .boost(ActorKind::Scanner, 30)
                    .boost(ActorKind::TcpClient, 30);
                f.max_frames = 400;
                f.mass_scan_pm = 15;
                f
            }
            "C10" => {
                let mut f = b.boost(ActorKind::TcpClient, 50).boost(ActorKind::UdpClient, 50);
                f.flavors = vec![(Flavor::Valid, 70), (Flavor::Fault, 15), (Flavor::Hostile, 15)];
                f.segment_pm = 600;
                f.mangle_pct = 20;
                f
            }
            "C11" => {
                let mut f = b
                    .boost(ActorKind::TcpClient, 90)
                    .boost(ActorKind::UdpClient, 5)
                    .only_apps(&[(App::Http, 50), (App::Rpc, 50)]);
                f.flavors = vec![(Flavor::Valid, 80), (Flavor::Fault, 20)];
                f.segment_pm = 900;
                f.twin_pm = 900;
                f.mangle_pct = 10;
                f
            }
            "C12" => {
                let mut f = b;
                f.flavors = vec![(Flavor::Valid, 40), (Flavor::ResponseTyped, 50), (Flavor::Fault, 10)];
                f.reflect_pm = 400;
                f.mangle_pct = 20;
                f
            }
            "C13" => app_focus(b, &[(App::Http, 90), (App::Noise, 2)]),
            "C14" => {
                let mut f = app_focus(b, &[(App::Dns, 90), (App::Noise, 2)]);
                f = f.boost(ActorKind::TcpClient, 3).boost(ActorKind::UdpClient, 90);
                f
            }
            "C15" => app_focus(b, &[(App::Stun, 90), (App::Noise, 2)]),
            "C16" => app_focus(b, &[(App::Rpc, 90), (App::Noise, 2)]),
            "C17" => {
                let mut f = app_focus(b, &[(App::Smb1, 45), (App::Smb2, 45), (App::Noise, 2)]);
                f = f.boost(ActorKind::TcpClient, 80).boost(ActorKind::UdpClient, 20);
                f
            }
            "C18" => app_focus(b, &[(App::Ssh, 60), (App::Ghost, 30), (App::Noise, 2)]),
            "C19" => {
                let mut f = b.boost(ActorKind::TcpClient, 50).boost(ActorKind::UdpClient, 50);
                f.flavors = vec![(Flavor::Valid, 75), (Flavor::Fault, 20), (Flavor::ResponseTyped, 5)];
                f.twin_pm = 950;
                f.mangle_pct = 10;
                f
            }
            "C20" => {
                let mut f = b;
                f.logger_pm = 1000;
                f.offscope_pm = 250;
                f
            }
            _ => b,
        }
    }
}

fn app_focus(mut b: Focus, apps: &[(App, u32)]) -> Focus {
    b.apps = apps.to_vec();
    b.flavors = vec![(Flavor::Valid, 60), (Flavor::Fault, 30), (Flavor::ResponseTyped, 5), (Flavor::Hostile, 5)];
    for a in b.actors.iter_mut() {
        match a.0 {
            ActorKind::TcpClient => a.1 = 45,
            ActorKind::UdpClient => a.1 = 45,
            ActorKind::Arp | ActorKind::Nd | ActorKind::Ping => a.1 = 3,
            ActorKind::Scanner => a.1 = 4,
            _ => a.1 = 1,
        }
    }
    b.mangle_pct = 25;
    b
}

#[derive(Clone, Debug)]
pub struct Peer {
    pub mac: Mac,
    pub ip4: Ipv4Addr,
    pub ip6: Ipv6Addr,
    pub denied: bool,
}

#[derive(Clone, Debug, Default)]
pub struct FaultCfg {
    /// per-mille rates; 0 = kind disabled in this run
    pub drop_pm: u64,
    pub dup_pm: u64,
    pub reorder_pm: u64,
    pub corrupt_pm: u64,
    pub truncate_pm: u64,
    pub pad_pm: u64,
    pub lenlie_pm: u64,
    pub misdeliver_pm: u64,
    /// vary IP header fields that must not matter (IPv4 flags/fragment bits, TOS, id; IPv6 class/flow)
    pub ipvary_pm: u64,
    pub replay_pm: u64,
    pub reflect_pm: u64,
    pub drop_reply_pm: u64,
    /// per-mille of the node's IP replies for which the peer (or a router on the way) sends an
    /// ICMP error quoting the reply back at the node
    pub icmp_error_pm: u64,
    /// scheduled events
    pub clock_jumps: u64,
    pub soft_restarts: u64,
    pub hard_restarts: u64,
    pub stalls: u64,
    /// constant clock skew of the node in milliseconds (may be negative)
    pub skew_ms: i64,
}

#[derive(Clone, Debug)]
pub struct Plan {
    pub cfg: Config,
    pub start_ms: u64,
    pub horizon_us: u64,
    pub peers: Vec<Peer>,
    pub faults: FaultCfg,
    pub max_frames: usize,
    /// number of connections of the mass banner scan of this run, if any
    pub mass_scan: Option<u32>,
    /// addresses the node handles and that peers may target (when no list is configured: arbitrary ones)
    pub targets4: Vec<Ipv4Addr>,
    pub targets6: Vec<Ipv6Addr>,
    /// addresses that are not handled (used by bystanders); meaningful when a list is configured
    pub foreign4: Vec<Ipv4Addr>,
    pub foreign6: Vec<Ipv6Addr>,
}

fn rand_mac(rng: &mut Rng) -> Mac {
    let b = rng.bytes(6);
    // locally administered unicast
    [(b[0] & 0xfc) | 0x02, b[1], b[2], b[3], b[4], b[5]]
}

fn rand_ip4(rng: &mut Rng, net: u8) -> Ipv4Addr {
    let b = rng.bytes(3);
    Ipv4Addr::new(net, b[0], b[1], b[2].max(1))
}

fn rand_ip6(rng: &mut Rng, prefix: u16) -> Ipv6Addr {
    let b = rng.bytes(12);
    let w = |i: usize| ((b[i] as u16) << 8) | b[i + 1] as u16;
    Ipv6Addr::new(prefix, 0xdb8, w(0), w(2), w(4), w(6), w(8), w(10))
}

impl Plan {
    pub fn gen(rng: &mut Rng, focus: &Focus) -> Plan {
        let mac = if rng.chance(1, 4) {
            [0xc0, 0xff, 0xee, 0xc0, 0xff, 0xee]
        } else {
            rand_mac(rng)
        };
        let key = if rng.chance(1, 4) { [0, 0] } else { [rng.u64(), rng.u64()] };
        let has_list = rng.chance(2, 3);
        let mut t4: Vec<Ipv4Addr> = (0..rng.range(1, 4)).map(|_| rand_ip4(rng, 10)).collect();
        let mut t6: Vec<Ipv6Addr> = (0..rng.range(1, 3)).map(|_| rand_ip6(rng, 0x2001)).collect();
        if rng.chance(1, 3) {
            t6.push(Ipv6Addr::new(0xfe80, 0, 0, 0, rng.u16(), rng.u16(), rng.u16(), rng.u16()));
        }
        if rng.chance(1, 6) {
            // a handled address of a special-purpose form (IPv4-mapped / IPv4-compatible)
            let o = t4[0].octets();
            let hi = if rng.chance(2, 3) { 0xffff } else { 0 };
            t6.push(Ipv6Addr::new(0, 0, 0, 0, 0, hi, ((o[0] as u16) << 8) | o[1] as u16, ((o[2] as u16) << 8) | o[3] as u16));
        }
        if has_list && rng.chance(1, 8) {
            // IPv4-only deployment
            t6.clear();
        }
        if has_list && rng.chance(1, 8) {
            // a group address among the handled addresses (the responder is told to answer for it):
            // the statements make no exception for it - replies come from the address that was asked
            t4.push(Ipv4Addr::new(*rng.pick(&[224u8, 239]), 0, 0, rng.u8().max(1)));
            if !t6.is_empty() && rng.chance(1, 2) {
                t6.push(Ipv6Addr::new(0xff02, 0, 0, 0, 0, 0, 0, 0xfb));
            }
        }
        let f4: Vec<Ipv4Addr> = (0..3).map(|_| rand_ip4(rng, 172)).collect();
        let mut f6: Vec<Ipv6Addr> = (0..3).map(|_| rand_ip6(rng, 0x2a00)).collect();
        // near misses: same low 24 bits as a handled address (same solicited-node group)
        if let Some(a) = t6.first() {
            let mut o = a.octets();
            o[0] = 0x2a;
            o[5] ^= 0x40;
            f6.push(Ipv6Addr::from(o));
        }
        let self_ips = if has_list {
            let mut v: Vec<IpAddr> = t4.iter().map(|a| IpAddr::V4(*a)).collect();
            v.extend(t6.iter().map(|a| IpAddr::V6(*a)));
            Some(v)
        } else {
            // without a list everything is handled; still aim at a few arbitrary addresses
            if rng.chance(1, 2) {
                t4.push(Ipv4Addr::new(224, 0, 0, rng.u8())); // multicast destination
            }
            None
        };
        let npeers = rng.range(2, 6) as usize;
        let mut peers = Vec::new();
        for _ in 0..npeers {
            // mostly ordinary unicast sources; some special-purpose ones (IPv4-mapped, link-local,
            // 6to4, loopback-ish, link-local IPv4, limited broadcast as a spoofed source)
            let ip6 = match rng.below(10) {
                0 | 1 => {
                    let b = rng.bytes(4);
                    Ipv6Addr::new(0, 0, 0, 0, 0, 0xffff, ((b[0] as u16) << 8) | b[1] as u16, ((b[2] as u16) << 8) | b[3] as u16)
                }
                2 => Ipv6Addr::new(0xfe80, 0, 0, 0, rng.u16(), rng.u16(), rng.u16(), rng.u16()),
                3 => Ipv6Addr::new(0x2002, rng.u16(), rng.u16(), 0, 0, 0, 0, rng.u16()),
                _ => rand_ip6(rng, 0xfd00),
            };
            let ip4 = match rng.below(12) {
                0 => Ipv4Addr::new(169, 254, rng.u8(), rng.u8().max(1)),
                1 => Ipv4Addr::new(*rng.pick(&[0u8, 127, 224, 240, 255]), rng.u8(), rng.u8(), rng.u8().max(1)),
                _ => rand_ip4(rng, 192),
            };
            peers.push(Peer {
                mac: rand_mac(rng),
                ip4,
                ip6,
                denied: false,
            });
        }
        let has_deny = rng.chance(1, 2);
        let deny = if has_deny {
            let mut v: Vec<IpAddr> = Vec::new();
            let nd = rng.range(1, 2) as usize;
            for k in 0..nd.min(peers.len() - 1) {
                let i = peers.len() - 1 - k;
                peers[i].denied = true;
                v.push(IpAddr::V4(peers[i].ip4));
                v.push(IpAddr::V6(peers[i].ip6));
            }
            v.push(IpAddr::V4(rand_ip4(rng, 203)));
            Some(v)
        } else {
            None
        };
        let logger = if rng.below(1000) < focus.logger_pm {
            if rng.chance(1, 2) {
                LoggerKind::Console
            } else {
                LoggerKind::Logfmt
            }
        } else {
            LoggerKind::None
        };
        let level = *rng.pick(&[0u8, 0, 1, 2, 2, 3, 4, 5]);
        let build = match focus.build {
            Some(b) => b,
            None => {
                if rng.chance(1, 2) {
                    Build::Debug
                } else {
                    Build::Release
                }
            }
        };
        // the interface the responder is bound to: none (as in the unit tests), one with the
        // configured MAC, or one with another hardware address (production with --mac-addr)
        let iface = match rng.below(3) {
            0 => None,
            1 => Some(mac),
            _ => Some(rand_mac(rng)),
        };
        // the host's own addresses on that interface: none, some address the peers talk to (handled
        // or not), an unrelated one; flags as a running Ethernet interface / none / loopback-like
        let mut iface_ips = Vec::new();
        let mut iface_flags = 0u32;
        // addresses the peers of this run talk to (handled ones, and - with a list - foreign ones)
        let mut node_ips: Vec<IpAddr> = t4.iter().map(|a| IpAddr::V4(*a)).collect();
        node_ips.extend(t6.iter().map(|a| IpAddr::V6(*a)));
        node_ips.extend(f4.iter().map(|a| IpAddr::V4(*a)));
        node_ips.extend(f6.iter().take(1).map(|a| IpAddr::V6(*a)));
        if iface.is_some() && rng.chance(2, 3) {
            if rng.chance(3, 4) {
                iface_ips.push(*rng.pick(&node_ips));
            }
            if rng.chance(1, 2) {
                iface_ips.push(*rng.pick(&node_ips));
            }
            if rng.chance(1, 3) {
                iface_ips.push(if rng.chance(1, 2) { IpAddr::V4(Ipv4Addr::new(172, 16, 5, rng.range(1, 255) as u8)) } else { IpAddr::V6(Ipv6Addr::new(0xfe80, 0, 0, 0, 0x200, 0xff, 0xfe00, rng.u16())) });
            }
            iface_ips.dedup();
            iface_flags = *rng.pick(&[0x1043u32, 0x1043, 0x11043, 0, 0x49, 0x1002]);
        }
        let cfg = Config {
            mac,
            key,
            self_ips,
            deny,
            logger,
            level,
            build,
            iface,
            iface_ips,
            iface_flags,
        };
        // faults: swarm - each kind enabled independently, some runs fault-free
        let mut faults = FaultCfg::default();
        if rng.below(1000) >= focus.fault_free_pm {
            let m = focus.mangle_pct;
            let mut on = |rng: &mut Rng, p_enable: u64, lo: u64, hi: u64| -> u64 {
                if rng.below(100) < p_enable {
                    rng.range(lo, hi)
                } else {
                    0
                }
            };
            faults.drop_pm = on(rng, 50, 10, 150);
            faults.dup_pm = on(rng, 50, 10, 200);
            faults.reorder_pm = on(rng, 50, 20, 300);
            faults.corrupt_pm = on(rng, 35, 5, 80) * m / 100;
            faults.truncate_pm = on(rng, 35, 5, 80) * m / 100;
            faults.pad_pm = on(rng, 35, 10, 200);
            faults.lenlie_pm = on(rng, 30, 5, 60) * m / 100;
            faults.misdeliver_pm = on(rng, 30, 5, 80);
            faults.ipvary_pm = on(rng, 40, 10, 120);
            faults.replay_pm = on(rng, 40, 10, 100);
            faults.drop_reply_pm = on(rng, 40, 10, 200);
            faults.icmp_error_pm = on(rng, 30, 20, 250);
            faults.clock_jumps = on(rng, 40, 1, 3);
            faults.soft_restarts = on(rng, 25, 1, 2);
            faults.hard_restarts = on(rng, 12, 1, 1);
            faults.stalls = on(rng, 25, 1, 2);
            if rng.chance(1, 3) {
                faults.skew_ms = rng.range(0, 7_200_000) as i64 - 3_600_000;
            }
        }
        faults.reflect_pm = if rng.chance(1, 2) { focus.reflect_pm } else { 0 };
        let start_ms = match rng.below(6) {
            0 => 86_400_000 + rng.below(1000),              // 1970-01-02
            1 => 2_147_483_647_000 - rng.below(120_000),     // around the 2038 rollover
            2 => 4_102_444_800_000 + rng.below(86_400_000),  // 2100
            _ => 1_600_000_000_000 + rng.below(200_000_000_000),
        };
        let mass_scan = if focus.mass_scan_pm > 0 && rng.below(1000) < focus.mass_scan_pm {
            Some(*rng.pick(&[300u32, 600, 1100, 2200]))
        } else {
            None
        };
        Plan {
            cfg,
            start_ms,
            horizon_us: rng.range(1, 60) * 1_000_000,
            peers,
            faults,
            max_frames: focus.max_frames + mass_scan.map(|n| 2 * n as usize + 100).unwrap_or(0),
            mass_scan,
            targets4: t4,
            targets6: t6,
            foreign4: f4,
            foreign6: f6,
        }
    }
}
