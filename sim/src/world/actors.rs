//! Simulated peers. Each actor is a small state machine that emits frames and
//! timers and reacts to the frames the node sends back to its host.

use std::net::{IpAddr, Ipv4Addr, Ipv6Addr};

use crate::apps::{self, App, Flavor};
use crate::rng::Rng;
use crate::wire::*;
use crate::world::plan::{ActorKind, Focus, Plan};

pub enum Action {
    Send(Vec<u8>),
    /// send after a delay (microseconds)
    SendAt(u64, Vec<u8>),
    Timer(u64, u32),
}

pub trait Actor {
    fn peer(&self) -> usize;
    fn kind(&self) -> ActorKind;
    fn start(&mut self, rng: &mut Rng) -> Vec<Action>;
    fn on_timer(&mut self, _token: u32, _rng: &mut Rng) -> Vec<Action> {
        Vec::new()
    }
    fn on_frame(&mut self, _frame: &[u8], _rng: &mut Rng) -> Vec<Action> {
        Vec::new()
    }
    /// one-line description for the evidence samples
    fn describe(&self) -> String;
}

#[derive(Clone, Debug)]
pub struct Addr {
    pub smac: Mac,
    pub dmac: Mac,
    pub src: IpAddr,
    pub dst: IpAddr,
    pub note: &'static str,
}

fn group_mac(ip: &IpAddr) -> Mac {
    match ip {
        IpAddr::V4(a) => {
            let o = a.octets();
            [0x01, 0x00, 0x5e, o[1] & 0x7f, o[2], o[3]]
        }
        IpAddr::V6(a) => {
            let o = a.octets();
            [0x33, 0x33, 0xff, o[13], o[14], o[15]]
        }
    }
}

/// Choose addresses for an actor of `peer`. `offscope`: aim outside the node's scope.
pub fn pick_addr(plan: &Plan, rng: &mut Rng, peer: usize, v6: bool, offscope: bool) -> Addr {
    let p = &plan.peers[peer];
    let src = if v6 { IpAddr::V6(p.ip6) } else { IpAddr::V4(p.ip4) };
    let handled: IpAddr = if v6 {
        if plan.targets6.is_empty() {
            IpAddr::V6(Ipv6Addr::new(0x2001, 0xdb8, 0, 0, 0, 0, 0, 1))
        } else {
            IpAddr::V6(*rng.pick(&plan.targets6))
        }
    } else {
        IpAddr::V4(*rng.pick(&plan.targets4))
    };
    let mut a = Addr {
        smac: p.mac,
        dmac: plan.cfg.mac,
        src,
        dst: handled,
        note: "own-mac",
    };
    if rng.chance(1, 40) {
        // a frame that claims to come from the responder's own MAC (spoofed or looped back)
        a.smac = plan.cfg.mac;
    }
    if !offscope {
        match rng.below(20) {
            0 => {
                a.dmac = BROADCAST;
                a.note = "broadcast";
            }
            1 => {
                // the IPv6 all-nodes group MAC is authorised whatever the frame carries
                a.dmac = [0x33, 0x33, 0, 0, 0, 1];
                a.note = "all-nodes";
            }
            2 | 3 if plan.cfg.self_ips.is_some() => {
                a.dmac = group_mac(&handled);
                a.note = "group-of-handled-ip";
            }
            _ => {}
        }
        return a;
    }
    match rng.below(8) {
        0 => {
            let b = rng.bytes(6);
            a.dmac = [b[0] & 0xfe, b[1], b[2], b[3], b[4], b[5]];
            a.note = "foreign-unicast-mac";
            if let Some(hw) = plan.cfg.iface {
                if hw != plan.cfg.mac && rng.chance(1, 2) {
                    // the hardware address of the interface, which is not the configured MAC
                    a.dmac = hw;
                    a.note = "interface-hardware-mac";
                }
            }
        }
        1 => {
            let bit = rng.below(48) as usize;
            a.dmac[bit / 8] ^= 1 << (bit % 8);
            a.note = "mac-one-bit-off";
        }
        2 if plan.cfg.self_ips.is_some() && rng.chance(1, 3) => {
            // the right group prefix with the wrong family's address bits: 33:33:ff + the low bits
            // of a handled IPv4 address, 01:00:5e + the low bits of a handled IPv6 address
            let v4 = plan.targets4.first().map(|x| x.octets());
            let v6o = plan.targets6.first().map(|x| x.octets());
            a.dmac = match (rng.chance(1, 2), v4, v6o) {
                (true, Some(o), _) | (_, Some(o), None) => [0x33, 0x33, 0xff, o[1], o[2], o[3]],
                (_, _, Some(o)) => [0x01, 0x00, 0x5e, o[13] & 0x7f, o[14], o[15]],
                _ => a.dmac,
            };
            a.note = "cross-family-group-mac";
        }
        2 => {
            // wrong multicast mapping: 24 instead of 23 bits, or another group
            match handled {
                IpAddr::V4(x) => {
                    let o = x.octets();
                    a.dmac = [0x01, 0x00, 0x5e, o[1] | 0x80, o[2], o[3]];
                    if o[1] & 0x80 != 0 {
                        a.dmac[5] ^= 1;
                    }
                }
                IpAddr::V6(x) => {
                    let o = x.octets();
                    a.dmac = [0x33, 0x33, *rng.pick(&[0xaau8, 0x00, 0xfe]), o[13], o[14], o[15]];
                }
            }
            a.note = "wrong-group-mac";
        }
        3 => {
            a.dmac = if v6 { [0x33, 0x33, 0, 0, 0, 2] } else { [0x01, 0x00, 0x5e, 0, 0, 1] };
            a.note = "other-multicast-group";
        }
        4 | 5 => {
            // right MAC, address the node does not handle
            a.dst = if v6 {
                if rng.chance(1, 3) && plan.cfg.self_ips.is_some() {
                    // a handled IPv4 address embedded in an IPv6 address (IPv4-mapped, IPv4-compatible,
                    // NAT64, 6to4): not on the list unless it is listed in that very form
                    let o = rng.pick(&plan.targets4).octets();
                    let (w6, w7) = (((o[0] as u16) << 8) | o[1] as u16, ((o[2] as u16) << 8) | o[3] as u16);
                    let cand = match rng.below(4) {
                        0 | 1 => Ipv6Addr::new(0, 0, 0, 0, 0, 0xffff, w6, w7),
                        2 => Ipv6Addr::new(0, 0, 0, 0, 0, 0, w6, w7),
                        _ => Ipv6Addr::new(0x64, 0xff9b, 0, 0, 0, 0, w6, w7),
                    };
                    if plan.targets6.contains(&cand) {
                        IpAddr::V6(*rng.pick(&plan.foreign6))
                    } else {
                        IpAddr::V6(cand)
                    }
                } else {
                    IpAddr::V6(*rng.pick(&plan.foreign6))
                }
            } else {
                IpAddr::V4(*rng.pick(&plan.foreign4))
            };
            a.note = "unhandled-ip";
        }
        6 => {
            // a group or broadcast address as IP destination, on the matching (authorised) MAC:
            // the solicited-node group of a handled address, all-nodes, limited broadcast
            if v6 {
                if rng.chance(1, 3) {
                    a.dst = IpAddr::V6(Ipv6Addr::new(0xff02, 0, 0, 0, 0, 0, 0, 1));
                    a.dmac = [0x33, 0x33, 0, 0, 0, 1];
                } else {
                    let o = match handled {
                        IpAddr::V6(x) => x.octets(),
                        _ => [0; 16],
                    };
                    a.dst = IpAddr::V6(Ipv6Addr::new(0xff02, 0, 0, 0, 0, 1, 0xff00 | o[13] as u16, ((o[14] as u16) << 8) | o[15] as u16));
                    a.dmac = [0x33, 0x33, 0xff, o[13], o[14], o[15]];
                }
            } else {
                a.dst = IpAddr::V4(Ipv4Addr::new(255, 255, 255, 255));
                a.dmac = BROADCAST;
            }
            a.note = "group-or-broadcast-ip";
        }
        _ => {
            // group MAC of an address that is not handled
            let f: IpAddr = if v6 {
                IpAddr::V6(*rng.pick(&plan.foreign6))
            } else {
                IpAddr::V4(*rng.pick(&plan.foreign4))
            };
            a.dmac = group_mac(&f);
            a.dst = f;
            a.note = "group-of-unhandled-ip";
        }
    }
    a
}

// ------------------------------------------------------------------- ARP

pub struct ArpActor {
    pub peer: usize,
    pub frames: Vec<(u64, Vec<u8>)>,
    pub note: String,
}

impl ArpActor {
    pub fn new(plan: &Plan, rng: &mut Rng, peer: usize, offscope: bool) -> ArpActor {
        let n = rng.range(1, 5);
        let mut frames = Vec::new();
        let p = &plan.peers[peer];
        let mut note = String::new();
        for _ in 0..n {
            let off1 = offscope && rng.chance(1, 2);
            let a = pick_addr(plan, rng, peer, false, off1);
            let target = if offscope && rng.chance(1, 2) {
                *rng.pick(&plan.foreign4)
            } else if let IpAddr::V4(x) = a.dst {
                x
            } else {
                Ipv4Addr::new(10, 0, 0, 1)
            };
            let op = match rng.below(10) {
                0 => 2,
                1 => *rng.pick(&[0u16, 3, 4, 8, 9, 25, 0x100, 0xffff]),
                2 => rng.u16(),
                _ => 1,
            };
            let mut f = ArpFields {
                htype: 1,
                ptype: 0x0800,
                hlen: 6,
                plen: 4,
                op,
                sha: p.mac,
                spa: p.ip4.octets(),
                tha: if rng.chance(1, 2) { [0; 6] } else { plan.cfg.mac },
                tpa: target.octets(),
            };
            match rng.below(20) {
                0 => f.htype = *rng.pick(&[0u16, 6, 0xffff]),
                1 => f.ptype = *rng.pick(&[0u16, 0x86dd, 0x0806]),
                2 => f.hlen = rng.u8(),
                3 => f.plen = rng.u8(),
                4 => f.spa = [0, 0, 0, 0], // ARP probe
                5 | 6 => {
                    // relayed / proxied / forged request: the sender hardware address inside the
                    // ARP payload is not the frame's Ethernet source
                    let b = rng.bytes(6);
                    f.sha = [b[0] & 0xfe, b[1], b[2], b[3], b[4], b[5]];
                }
                7 => f.sha = [0; 6],
                8 => f.spa = f.tpa, // gratuitous
                9 => f.sha = plan.cfg.mac, // the requester claims the responder's own hardware address
                10 => f.sha = BROADCAST,
                _ => {}
            }
            let dmac = if rng.chance(2, 3) && a.note == "own-mac" { BROADCAST } else { a.dmac };
            let mut body = arp(&f);
            if rng.chance(1, 2) {
                // Ethernet minimum-size padding (zeros or leftovers)
                let pad = if rng.chance(3, 4) { 18 } else { rng.range(1, 40) as usize };
                if rng.chance(1, 2) {
                    body.extend(std::iter::repeat(0).take(pad));
                } else {
                    body.extend_from_slice(&rng.bytes(pad));
                }
            }
            note = format!("arp op{} for {} via {}", op, target, a.note);
            frames.push((rng.below(plan.horizon_us), eth(&dmac, &p.mac, ET_ARP, &body)));
        }
        ArpActor { peer, frames, note }
    }
}

impl Actor for ArpActor {
    fn peer(&self) -> usize {
        self.peer
    }
    fn kind(&self) -> ActorKind {
        ActorKind::Arp
    }
    fn start(&mut self, _rng: &mut Rng) -> Vec<Action> {
        self.frames.drain(..).map(|(t, f)| Action::SendAt(t, f)).collect()
    }
    fn describe(&self) -> String {
        self.note.clone()
    }
}

// ------------------------------------------------- neighbour discovery / ping

pub struct IcmpActor {
    pub peer: usize,
    pub kind: ActorKind,
    pub frames: Vec<(u64, Vec<u8>)>,
    pub note: String,
}

fn echo_body(rng: &mut Rng) -> Vec<u8> {
    let kinds = if rng.chance(1, 12) { 9 } else { 8 };
    let n = match rng.below(kinds) {
        // more than an unfragmented packet of 1500 holds (the capture buffer takes frames of 4096)
        8 => *rng.pick(&[1473u64, 1474, 1500, 2000, 2048, 3000, 4000, 4034]),
        0 => 0,
        1 => 1,
        2 => rng.range(2, 7),
        3 => 56,
        4 => rng.range(8, 200),
        5 => rng.range(200, 1472),
        6 => 1472,
        _ => 2 * rng.range(0, 32) + 1,
    } as usize;
    let mut v = rng.bytes(4); // id, seq
    v.extend_from_slice(&rng.bytes(n));
    v
}

impl IcmpActor {
    pub fn ping(plan: &Plan, rng: &mut Rng, peer: usize, offscope: bool) -> IcmpActor {
        let mut frames = Vec::new();
        let mut note = String::new();
        for _ in 0..rng.range(1, 5) {
            let v6 = rng.chance(1, 2);
            let off1 = offscope && rng.chance(2, 3);
            let mut a = pick_addr(plan, rng, peer, v6, off1);
            if !off1 && rng.chance(1, 40) {
                a.src = a.dst; // an echo request that claims the responder's own address as its source
            }
            let (ty, code) = match rng.below(10) {
                0 => (if v6 { 129u8 } else { 0u8 }, 0u8), // echo reply
                1 => (if v6 { 128 } else { 8 }, rng.range(1, 255) as u8),
                2 => (rng.u8(), 0),
                3 => (rng.u8(), rng.u8()),
                4 => (*rng.pick(&[3u8, 11, 13, 17, 133, 134, 136, 137, 1, 2, 4]), 0),
                _ => (if v6 { 128 } else { 8 }, 0),
            };
            let mut body = echo_body(rng);
            if rng.chance(1, 16) {
                body.truncate(rng.below(4) as usize);
            }
            let seg = match (&a.src, &a.dst) {
                (IpAddr::V6(s), IpAddr::V6(d)) => icmp6(ty, code, &body, s, d),
                _ => icmp4(ty, code, &body),
            };
            let mut f = frame_ip(&a.dmac, &a.smac, &a.src, &a.dst, if v6 { P_ICMP6 } else { P_ICMP }, &seg, rng.range(1, 255) as u8);
            if rng.chance(1, 4) && f.len() < 60 {
                f.resize(60, 0); // Ethernet padding beyond the IP length
            }
            note = format!("icmp{} type {} code {} ({} bytes) via {}", if v6 { "6" } else { "" }, ty, code, body.len(), a.note);
            frames.push((rng.below(plan.horizon_us), f));
        }
        IcmpActor {
            peer,
            kind: ActorKind::Ping,
            frames,
            note,
        }
    }

    pub fn nd(plan: &Plan, rng: &mut Rng, peer: usize, offscope: bool) -> IcmpActor {
        let mut frames = Vec::new();
        let mut note = String::new();
        let p = &plan.peers[peer];
        for _ in 0..rng.range(1, 4) {
            let target: Ipv6Addr = if offscope && rng.chance(2, 3) {
                *rng.pick(&plan.foreign6)
            } else if plan.targets6.is_empty() {
                Ipv6Addr::new(0x2001, 0xdb8, 0, 0, 0, 0, 0, rng.u16())
            } else {
                *rng.pick(&plan.targets6)
            };
            let o = target.octets();
            // destination: solicited-node multicast (address resolution) or unicast (NUD)
            let (dst, dmac, via) = match rng.below(9) {
                6 => {
                    // unicast probe sent to another address than the one asked about
                    let d = if !plan.targets6.is_empty() && rng.chance(1, 2) { *rng.pick(&plan.targets6) } else { *rng.pick(&plan.foreign6) };
                    (d, plan.cfg.mac, "unicast-other-address")
                }
                7 => (*rng.pick(&plan.foreign6), plan.cfg.mac, "unicast-unhandled-address"),
                0 | 1 | 2 | 8 => (
                    Ipv6Addr::new(0xff02, 0, 0, 0, 0, 1, 0xff00 | o[13] as u16, ((o[14] as u16) << 8) | o[15] as u16),
                    [0x33, 0x33, 0xff, o[13], o[14], o[15]],
                    "solicited-node",
                ),
                3 => (target, plan.cfg.mac, "unicast"),
                4 => (Ipv6Addr::new(0xff02, 0, 0, 0, 0, 0, 0, 1), [0x33, 0x33, 0, 0, 0, 1], "all-nodes"),
                _ => (target, BROADCAST, "broadcast-mac"),
            };
            let dad = rng.chance(1, 6);
            // mostly the peer's own address; a DAD probe comes from ::, an address conflict (or a
            // host re-announcing itself) from the very address that is asked about
            let src = if dad {
                Ipv6Addr::UNSPECIFIED
            } else if rng.chance(1, 10) {
                target
            } else {
                p.ip6
            };
            let mut body = vec![0u8; 4];
            body.extend_from_slice(&o);
            if !dad && rng.chance(2, 3) {
                body.extend_from_slice(&[1, 1]);
                body.extend_from_slice(&p.mac);
            }
            if rng.chance(1, 10) {
                // unknown option / nonce
                body.extend_from_slice(&[14, 1]);
                body.extend_from_slice(&rng.bytes(6));
            }
            let (ty, code) = match rng.below(12) {
                0 => (136u8, 0u8), // unsolicited advertisement
                1 => (135, rng.range(1, 255) as u8),
                2 => (133, 0),
                _ => (135, 0),
            };
            if rng.chance(1, 20) {
                let k = rng.range(0, 19) as usize;
                body.truncate(k); // truncated solicitation
            }
            let seg = icmp6(ty, code, &body, &src, &dst);
            let f = eth(&dmac, &p.mac, ET_IP6, &ipv6(&src, &dst, P_ICMP6, &seg, if rng.chance(7, 8) { 255 } else { rng.u8() }));
            note = format!("nd type {} code {} target {} via {}{}", ty, code, target, via, if dad { " (DAD)" } else { "" });
            frames.push((rng.below(plan.horizon_us), f));
        }
        IcmpActor {
            peer,
            kind: ActorKind::Nd,
            frames,
            note,
        }
    }
}

impl Actor for IcmpActor {
    fn peer(&self) -> usize {
        self.peer
    }
    fn kind(&self) -> ActorKind {
        self.kind
    }
    fn start(&mut self, _rng: &mut Rng) -> Vec<Action> {
        self.frames.drain(..).map(|(t, f)| Action::SendAt(t, f)).collect()
    }
    fn describe(&self) -> String {
        self.note.clone()
    }
}

// ------------------------------------------------------------ application

/// One application message and how it is cut into TCP segments.
#[derive(Clone, Debug)]
pub struct Message {
    pub app: App,
    pub flavor: Flavor,
    pub bytes: Vec<u8>,
    /// cut positions (strictly inside the message, ascending)
    pub cuts: Vec<usize>,
}

pub fn gen_cuts(rng: &mut Rng, len: usize, segment: bool, app: App) -> Vec<usize> {
    if !segment || len < 2 {
        return Vec::new();
    }
    let siglen = match app {
        App::Http => 6,
        App::Rpc => 28,
        App::Ssh => 8,
        App::Smb1 | App::Smb2 => 8,
        _ => 5,
    }
    .min(len - 1);
    let mut cuts: Vec<usize> = match rng.below(8) {
        0 => vec![rng.range(1, siglen as u64) as usize], // inside the signature
        1 => vec![siglen.min(len - 1)],                   // right after it
        2 => vec![rng.range(1, len as u64 - 1) as usize],
        3 => {
            let a = rng.range(1, len as u64 - 1) as usize;
            let b = rng.range(1, len as u64 - 1) as usize;
            vec![a, b]
        }
        4 => (1..len).collect(), // byte by byte
        5 => {
            // signature in the first segment, then byte by byte
            (siglen.max(1)..len).collect()
        }
        6 => vec![len - 1],
        _ => {
            let n = rng.range(2, 6);
            (0..n).map(|_| rng.range(1, len as u64 - 1) as usize).collect()
        }
    };
    cuts.sort();
    cuts.dedup();
    if rng.chance(1, 8) {
        // a zero-length PSH|ACK segment somewhere: at the very start, at a cut, or at the end
        let pos = match rng.below(4) {
            0 => 0,
            1 => len,
            _ if !cuts.is_empty() => cuts[rng.usize_below(cuts.len())],
            _ => 0,
        };
        cuts.push(pos);
        cuts.sort();
    }
    if cuts.len() > 48 {
        // keep byte-wise compositions affordable: thin out the tail
        let head: Vec<usize> = cuts.iter().copied().take(40).collect();
        cuts = head;
    }
    cuts
}

impl Message {
    pub fn gen(rng: &mut Rng, focus: &Focus, over_tcp: bool) -> Message {
        let app = focus.apps[rng.weighted(&focus.apps.iter().map(|a| a.1).collect::<Vec<_>>())].0;
        let flavor = focus.flavors[rng.weighted(&focus.flavors.iter().map(|a| a.1).collect::<Vec<_>>())].0;
        let bytes = apps::gen(app, flavor, over_tcp, rng);
        let segment = over_tcp && rng.below(1000) < focus.segment_pm;
        let mut cuts = gen_cuts(rng, bytes.len(), segment, app);
        if over_tcp && app == App::Rpc && rng.chance(1, 3) {
            // a cut at (or inside) the record mark of a continuation fragment
            let mut i = 0usize;
            let mut marks = Vec::new();
            while i + 4 <= bytes.len() {
                let m = u32::from_be_bytes([bytes[i], bytes[i + 1], bytes[i + 2], bytes[i + 3]]);
                marks.push(i);
                i += 4 + (m & 0x7fff_ffff) as usize;
                if marks.len() > 8 {
                    break;
                }
            }
            if marks.len() > 1 {
                let m = marks[1 + rng.usize_below(marks.len() - 1)];
                let c = m + rng.below(5) as usize;
                if c > 0 && c < bytes.len() {
                    cuts.push(c);
                    cuts.sort();
                    cuts.dedup();
                }
            }
        }
        if over_tcp && bytes.len() > 1400 {
            // a sender cannot put more than its segment size into one segment
            let mss = *rng.pick(&[536usize, 1220, 1460, 1460, 4000]);
            let mut k = mss;
            while k < bytes.len() {
                cuts.push(k);
                k += mss;
            }
            cuts.sort();
            cuts.dedup();
            if cuts.len() > 140 {
                cuts.truncate(140);
            }
        }
        Message {
            app,
            flavor,
            bytes,
            cuts,
        }
    }
    pub fn segments(&self) -> Vec<&[u8]> {
        let mut v = Vec::new();
        let mut prev = 0;
        for c in &self.cuts {
            v.push(&self.bytes[prev..*c]);
            prev = *c;
        }
        v.push(&self.bytes[prev..]);
        v
    }
}

#[derive(Clone, Copy, Debug, PartialEq, Eq)]
pub enum AckMode {
    Correct,
    Cookie,
    CookiePlus2,
    Zero,
    Random,
}

pub struct TcpClient {
    pub peer: usize,
    pub a: Addr,
    pub sport: u16,
    pub dport: u16,
    pub isn: u32,
    pub msgs: Vec<Message>,
    pub syn_flags: u16,
    pub data_flags: u16,
    /// first try the data with a wrong acknowledgement number
    pub first_ack: AckMode,
    pub retry_correct: bool,
    pub pre_data: bool,
    pub close: u8, // 0 nothing, 1 FIN|ACK, 2 RST, 3 FIN
    pub start_us: u64,
    pub gap_us: u64,
    pub rto_us: u64,
    pub ttl: u8,
    pub window: u16,
    pub options: Vec<u8>,
    /// option area of every segment that is not a SYN (timestamps, SACK blocks, odd ones)
    pub data_options: Vec<u8>,
    /// the tuple is reused: a new SYN is sent between two messages
    pub resyn: bool,
    /// urgent pointer carried by segments that have URG set (0, inside or beyond the payload)
    pub urg_ptr: u16,
    /// spurious retransmissions (same sequence number, same bytes): 0 none, 1 the last segment
    /// of every message once more, 2 every segment but the first of a message once more
    pub rexmit: u8,
    // state
    cookie: Option<u32>,
    syn_tries: u32,
    sent_data: bool,
}

const T_SYN: u32 = 1;
const T_RETRY: u32 = 2;

impl TcpClient {
    pub fn new(plan: &Plan, rng: &mut Rng, focus: &Focus, peer: usize, offscope: bool) -> TcpClient {
        let v6 = rng.chance(1, 2);
        let a = pick_addr(plan, rng, peer, v6, offscope);
        let n = match rng.below(6) {
            0 | 1 | 2 => 1,
            3 | 4 => 2,
            _ => 3,
        };
        let mut msgs = Vec::new();
        let first = Message::gen(rng, focus, true);
        let app = first.app;
        msgs.push(first);
        for _ in 1..n {
            // follow-ups mostly of the same protocol (dialogue), sometimes anything (sticky-flow abuse)
            let mut m = Message::gen(rng, focus, true);
            if rng.chance(1, 8) {
                // the other stream-parsed protocol (HTTP <-> RPC): parser state of another kind
                let other = if app == App::Http { App::Rpc } else { App::Http };
                m.bytes = apps::gen(other, Flavor::Valid, true, rng);
                m.app = other;
                m.cuts = Vec::new();
            } else if rng.chance(3, 4) && m.app != app {
                let flavor = m.flavor;
                m.bytes = apps::gen(app, flavor, true, rng);
                m.app = app;
                let sg = rng.below(1000) < focus.segment_pm;
                m.cuts = gen_cuts(rng, m.bytes.len(), sg, app);
            }
            msgs.push(m);
        }
        // ONC-RPC dialogue: a client may reuse a transaction id for another call (the id alone
        // does not say what is asked)
        if app == App::Rpc && msgs.len() > 1 && rng.chance(1, 3) && msgs[0].bytes.len() >= 8 && msgs[0].bytes[0] == 0x80 {
            let xid = [msgs[0].bytes[4], msgs[0].bytes[5], msgs[0].bytes[6], msgs[0].bytes[7]];
            for m in msgs.iter_mut().skip(1) {
                if m.app == App::Rpc && m.bytes.len() >= 8 && m.bytes[0] == 0x80 {
                    m.bytes[4..8].copy_from_slice(&xid);
                }
            }
        }
        let syn_flags = match rng.below(10) {
            0 => F_SYN | *rng.pick(&[F_PSH, F_URG, F_ECE, F_CWR, F_PSH | F_URG, F_ECE | F_URG]),
            _ => F_SYN,
        };
        let data_flags = match rng.below(12) {
            0 | 3 => F_PSH | F_ACK | F_URG,
            1 => F_PSH | F_ACK | F_FIN,
            2 => F_PSH | F_ACK | *rng.pick(&[F_ECE, F_CWR, F_NS, F_SYN, F_RST]),
            _ => F_PSH | F_ACK,
        };
        let first_ack = match rng.below(12) {
            0 => AckMode::Cookie,
            1 => AckMode::CookiePlus2,
            2 => AckMode::Zero,
            3 => AckMode::Random,
            _ => AckMode::Correct,
        };
        // coincidences between fields that usually differ: same port at both ends, and the
        // responder's own address as the source (a "LAND" segment) - neither is a reason not to answer
        let mut a = a;
        let (mut sport, dport) = (rng.edge_port(), rng.edge_port());
        if !offscope && rng.chance(1, 30) {
            sport = dport;
        }
        if !offscope && rng.chance(1, 40) {
            a.src = a.dst;
            if rng.chance(2, 3) {
                sport = dport;
            }
        }
        TcpClient {
            peer,
            a,
            sport,
            dport,
            isn: rng.edge_u32(),
            msgs,
            syn_flags,
            data_flags,
            first_ack,
            retry_correct: rng.chance(3, 4),
            pre_data: rng.chance(1, 12),
            close: *rng.pick(&[0u8, 1, 1, 1, 2, 3]),
            start_us: rng.below(plan.horizon_us * 2 / 3 + 1),
            // mostly back to back; now and then a client that pauses for a minute or five between
            // its segments (simulated time costs nothing)
            gap_us: if rng.chance(1, 16) { *rng.pick(&[31_000_000u64, 61_000_000, 125_000_000, 301_000_000]) } else { *rng.pick(&[10u64, 200, 1000, 5000, 50_000, 400_000]) },
            rto_us: *rng.pick(&[200_000u64, 1_000_000, 3_000_000]),
            ttl: rng.range(1, 255) as u8,
            window: rng.u16(),
            options: if rng.chance(2, 5) { gen_tcp_options(rng, true) } else { Vec::new() },
            data_options: if rng.chance(1, 4) { gen_tcp_options(rng, false) } else { Vec::new() },
            resyn: rng.chance(1, 6),
            rexmit: *rng.pick(&[0u8, 0, 0, 0, 0, 1, 1, 2]),
            urg_ptr: *rng.pick(&[0u16, 0, 1, 1, 2, 3, 5, 16, 0xffff]),
            cookie: None,
            syn_tries: 0,
            sent_data: false,
        }
    }

    fn seg(&self, seq: u32, ack: u32, flags: u16, payload: &[u8], opts: bool) -> Vec<u8> {
        let f = TcpFields {
            sport: self.sport,
            dport: self.dport,
            seq,
            ack,
            flags,
            window: self.window,
            urg: if flags & F_URG != 0 { self.urg_ptr } else { 0 },
            options: if opts { self.options.clone() } else { self.data_options.clone() },
        };
        let t = tcp(&f, payload, &self.a.src, &self.a.dst);
        frame_ip(&self.a.dmac, &self.a.smac, &self.a.src, &self.a.dst, P_TCP, &t, self.ttl)
    }

    fn syn(&self, rng: &mut Rng) -> Vec<u8> {
        let payload = if rng.chance(1, 10) { rng.bytes_range(1, 64) } else { Vec::new() };
        self.seg(self.isn, if rng.chance(1, 8) { rng.u32() } else { 0 }, self.syn_flags, &payload, true)
    }

    fn ack_for(&self, mode: AckMode, cookie: u32, rng: &mut Rng) -> u32 {
        match mode {
            AckMode::Correct => cookie.wrapping_add(1),
            AckMode::Cookie => cookie,
            AckMode::CookiePlus2 => cookie.wrapping_add(2),
            AckMode::Zero => 0,
            AckMode::Random => rng.u32(),
        }
    }

    /// all data segments of all messages, with their send offsets
    fn data_burst(&self, ack: u32, t0: u64) -> Vec<Action> {
        let mut out = Vec::new();
        let mut seq = self.isn.wrapping_add(1);
        let mut t = t0;
        for (mi, m) in self.msgs.iter().enumerate() {
            let segs = m.segments();
            let mut sent: Vec<(u32, &[u8])> = Vec::new();
            for s in segs.iter() {
                out.push(Action::SendAt(t, self.seg(seq, ack, self.data_flags, s, false)));
                sent.push((seq, s));
                seq = seq.wrapping_add(s.len() as u32);
                t += self.gap_us;
            }
            if self.rexmit > 0 && sent.len() > 1 {
                // the retransmission timer fires although everything arrived
                let from = if self.rexmit == 1 { sent.len() - 1 } else { 1 };
                for (sq, s) in sent[from..].iter() {
                    if !s.is_empty() {
                        out.push(Action::SendAt(t, self.seg(*sq, ack, self.data_flags, s, false)));
                        t += self.gap_us;
                    }
                }
            }
            if mi + 1 < self.msgs.len() {
                t += self.gap_us * 5 + 1000;
                if self.resyn {
                    // connection reuse on the same tuple: FIN, new SYN, then the next message
                    out.push(Action::SendAt(t, self.seg(seq, ack, F_FIN | F_ACK, &[], false)));
                    out.push(Action::SendAt(t + 200, self.seg(self.isn.wrapping_add(0x1000), 0, F_SYN, &[], true)));
                    t += 1000;
                }
            }
        }
        match self.close {
            1 => out.push(Action::SendAt(t + 1000, self.seg(seq, ack, F_FIN | F_ACK, &[], false))),
            2 => out.push(Action::SendAt(t + 1000, self.seg(seq, 0, F_RST, &[], false))),
            3 => out.push(Action::SendAt(t + 1000, self.seg(seq, ack, F_FIN, &[], false))),
            _ => {}
        }
        out
    }
}

impl Actor for TcpClient {
    fn peer(&self) -> usize {
        self.peer
    }
    fn kind(&self) -> ActorKind {
        ActorKind::TcpClient
    }
    fn start(&mut self, rng: &mut Rng) -> Vec<Action> {
        let mut v = Vec::new();
        if self.pre_data {
            // data overtakes its SYN: guessed acknowledgement number
            let first = self.msgs[0].segments()[0].to_vec();
            v.push(Action::SendAt(
                self.start_us,
                self.seg(self.isn.wrapping_add(1), rng.u32(), self.data_flags, &first, false),
            ));
        }
        v.push(Action::Timer(self.start_us + if self.pre_data { 500 } else { 0 }, T_SYN));
        v
    }
    fn on_timer(&mut self, token: u32, rng: &mut Rng) -> Vec<Action> {
        match token {
            T_SYN => {
                if self.cookie.is_some() || self.syn_tries >= 3 {
                    return Vec::new();
                }
                self.syn_tries += 1;
                vec![Action::Send(self.syn(rng)), Action::Timer(self.rto_us, T_SYN)]
            }
            T_RETRY => {
                if let Some(c) = self.cookie {
                    self.data_burst(c.wrapping_add(1), 0)
                } else {
                    Vec::new()
                }
            }
            _ => Vec::new(),
        }
    }
    fn on_frame(&mut self, frame: &[u8], rng: &mut Rng) -> Vec<Action> {
        let p = parse(frame);
        let t = match p.tcp() {
            Some(t) => t,
            None => return Vec::new(),
        };
        if t.sport != self.dport && t.sport != self.dport.wrapping_add(1) || t.dport != self.sport {
            return Vec::new();
        }
        if p.ip_src() != Some(self.a.dst) {
            return Vec::new();
        }
        if t.flags & 0x1ff == (F_SYN | F_ACK) && !self.sent_data {
            self.cookie = Some(t.seq);
            self.sent_data = true;
            let ack = self.ack_for(self.first_ack, t.seq, rng);
            let mut v = Vec::new();
            if rng.chance(1, 2) {
                // the handshake's third segment
                v.push(Action::Send(self.seg(self.isn.wrapping_add(1), t.seq.wrapping_add(1), F_ACK, &[], false)));
            }
            v.extend(self.data_burst(ack, 100));
            if self.first_ack != AckMode::Correct && self.retry_correct {
                v.push(Action::Timer(self.rto_us, T_RETRY));
            }
            return v;
        }
        Vec::new()
    }
    fn describe(&self) -> String {
        format!(
            "tcp {}:{} -> {}:{} via {} syn={:#x} ack={:?} msgs=[{}]{}",
            self.a.src,
            self.sport,
            self.a.dst,
            self.dport,
            self.a.note,
            self.syn_flags,
            self.first_ack,
            self.msgs
                .iter()
                .map(|m| format!("{:?}/{:?}/{}B/{}cuts", m.app, m.flavor, m.bytes.len(), m.cuts.len()))
                .collect::<Vec<_>>()
                .join(","),
            if self.pre_data { " data-before-syn" } else { "" }
        )
    }
}

pub struct UdpClient {
    pub peer: usize,
    pub a: Addr,
    pub sport: u16,
    pub dport: u16,
    pub msgs: Vec<(u64, Message)>,
    pub ttl: u8,
    /// over IPv4 the sender may leave the UDP checksum out (field 0)
    pub no_csum: bool,
}

impl UdpClient {
    pub fn new(plan: &Plan, rng: &mut Rng, focus: &Focus, peer: usize, offscope: bool) -> UdpClient {
        let v6 = rng.chance(1, 2);
        let a = pick_addr(plan, rng, peer, v6, offscope);
        let n = rng.range(1, 4);
        let msgs = (0..n)
            .map(|_| (rng.below(plan.horizon_us), Message::gen(rng, focus, false)))
            .collect();
        let mut a = a;
        let (mut sport, dport) = (rng.edge_port(), rng.edge_port());
        if !offscope && rng.chance(1, 30) {
            sport = dport;
        }
        if !offscope && rng.chance(1, 40) {
            a.src = a.dst;
            if rng.chance(2, 3) {
                sport = dport;
            }
        }
        UdpClient {
            peer,
            a,
            sport,
            dport,
            msgs,
            ttl: rng.range(1, 255) as u8,
            no_csum: !v6 && rng.chance(1, 10),
        }
    }
    pub fn datagram(&self, payload: &[u8]) -> Vec<u8> {
        let mut u = udp(self.sport, self.dport, payload, &self.a.src, &self.a.dst);
        if self.no_csum && matches!(self.a.src, IpAddr::V4(_)) {
            u[6] = 0;
            u[7] = 0;
        }
        frame_ip(&self.a.dmac, &self.a.smac, &self.a.src, &self.a.dst, P_UDP, &u, self.ttl)
    }
}

impl Actor for UdpClient {
    fn peer(&self) -> usize {
        self.peer
    }
    fn kind(&self) -> ActorKind {
        ActorKind::UdpClient
    }
    fn start(&mut self, _rng: &mut Rng) -> Vec<Action> {
        self.msgs
            .iter()
            .map(|(t, m)| Action::SendAt(*t, self.datagram(&m.bytes)))
            .collect()
    }
    fn describe(&self) -> String {
        format!(
            "udp {}:{} -> {}:{} via {} msgs=[{}]",
            self.a.src,
            self.sport,
            self.a.dst,
            self.dport,
            self.a.note,
            self.msgs
                .iter()
                .map(|(_, m)| format!("{:?}/{:?}/{}B", m.app, m.flavor, m.bytes.len()))
                .collect::<Vec<_>>()
                .join(",")
        )
    }
}

// ------------------------------------------------------------- TCP scanners

/// Sends TCP segments with arbitrary flags / numbers on fresh or borrowed tuples.
pub struct Scanner {
    pub peer: usize,
    pub frames: Vec<(u64, Vec<u8>)>,
    pub kind: ActorKind,
    pub note: String,
}

pub type Tuple = (usize, Addr, u16, u16);

/// A TCP option area (a multiple of four bytes, at most forty): what stacks really send (MSS,
/// window scale, SACK-permitted, timestamps, in the usual orders and paddings) and, now and then,
/// a hostile one (length bytes 0 and 1, lengths running past the header, unknown kinds, noise).
pub fn gen_tcp_options(rng: &mut Rng, syn: bool) -> Vec<u8> {
    let ts = |rng: &mut Rng| -> Vec<u8> {
        let mut v = vec![8u8, 10];
        v.extend_from_slice(&rng.u32().to_be_bytes());
        v.extend_from_slice(&(if rng.chance(1, 2) { 0 } else { rng.u32() }).to_be_bytes());
        v
    };
    let mut v: Vec<u8> = match rng.below(8) {
        0 if syn => vec![2, 4, 5, 0xb4],
        1 if syn => vec![2, 4, 5, 0xb4, 1, 3, 3, 7],
        2 if syn => {
            // Linux: MSS, SACK permitted, timestamps, NOP, window scale
            let mut v = vec![2u8, 4, 5, 0xb4, 4, 2];
            v.extend(ts(rng));
            v.extend_from_slice(&[1, 3, 3, 7]);
            v
        }
        3 if syn => {
            // Windows / BSD flavours
            let mut v = vec![2u8, 4, 5, 0xb4, 1, 3, 3, 8, 1, 1];
            v.extend(ts(rng));
            v.extend_from_slice(&[4, 2, 0, 0]);
            v
        }
        0 | 1 | 2 => {
            let mut v = vec![1u8, 1];
            v.extend(ts(rng));
            v
        }
        3 => {
            // timestamps first, padded with end-of-list
            let mut v = ts(rng);
            v.extend_from_slice(&[0, 0]);
            v
        }
        4 => {
            // SACK blocks behind the timestamps
            let mut v = vec![1u8, 1];
            v.extend(ts(rng));
            v.extend_from_slice(&[1, 1, 5, 10]);
            v.extend_from_slice(&rng.bytes(8));
            v
        }
        5 => {
            // a TLV walk with odd lengths: zero, one, past the end, unknown kinds
            let mut v = Vec::new();
            let n = rng.range(1, 5);
            for _ in 0..n {
                match rng.below(6) {
                    0 => v.push(1),
                    1 => v.extend_from_slice(&[*rng.pick(&[2u8, 3, 4, 5, 8, 19, 28, 30, 34, 253, 254, 255]), 0]),
                    2 => v.extend_from_slice(&[*rng.pick(&[2u8, 3, 4, 8, 254]), 1]),
                    3 => v.extend_from_slice(&[*rng.pick(&[2u8, 3, 5, 8, 254]), *rng.pick(&[40u8, 41, 127, 128, 255])]),
                    4 => {
                        let l = rng.range(2, 9) as usize;
                        v.push(rng.range(2, 256) as u8);
                        v.push(l as u8);
                        v.extend_from_slice(&rng.bytes(l - 2));
                    }
                    _ => v.extend(ts(rng)),
                }
            }
            v
        }
        6 => rng.bytes_mul(11, 4),
        _ => vec![0, 0, 0, 0],
    };
    v.truncate(40);
    while v.len() % 4 != 0 {
        v.push(if rng.chance(1, 2) { 0 } else { 1 });
    }
    v
}

fn tcp_frame(a: &Addr, sport: u16, dport: u16, seq: u32, ack: u32, flags: u16, payload: &[u8], rng: &mut Rng) -> Vec<u8> {
    let f = TcpFields {
        sport,
        dport,
        seq,
        ack,
        flags,
        window: rng.u16(),
        urg: if rng.chance(1, 8) { rng.u16() } else { 0 },
        options: if rng.chance(1, 3) { gen_tcp_options(rng, flags & F_SYN != 0) } else { Vec::new() },
    };
    let t = tcp(&f, payload, &a.src, &a.dst);
    frame_ip(&a.dmac, &a.smac, &a.src, &a.dst, P_TCP, &t, rng.range(1, 255) as u8)
}

impl Scanner {
    pub fn new(plan: &Plan, rng: &mut Rng, peer: usize, offscope: bool, borrowed: &[Tuple]) -> Scanner {
        let n = rng.range(2, 12);
        let mut frames = Vec::new();
        let style = rng.below(5);
        for _ in 0..n {
            let (a, sport, dport) = if !borrowed.is_empty() && rng.chance(1, 2) {
                let t = rng.pick(borrowed);
                (t.1.clone(), t.2, t.3)
            } else {
                let v6 = rng.chance(1, 2);
                (pick_addr(plan, rng, peer, v6, offscope), rng.edge_port(), rng.edge_port())
            };
            let flags = match style {
                0 => F_SYN,
                1 => rng.u16() & 0x1ff,
                2 => *rng.pick(&[F_ACK, F_RST, F_FIN | F_ACK, F_FIN, F_SYN | F_ACK, F_RST | F_ACK, 0, 0x1ff, F_FIN | F_PSH | F_URG]),
                3 => F_SYN | (rng.u16() & (F_PSH | F_URG | F_ECE | F_CWR)),
                _ => F_PSH | F_ACK | (rng.u16() & 0x1ff & if rng.chance(1, 2) { 0 } else { 0x1ff }),
            };
            let payload = if rng.chance(1, 3) { rng.bytes_range(1, 100) } else { Vec::new() };
            frames.push((
                rng.below(plan.horizon_us),
                tcp_frame(&a, sport, dport, rng.edge_u32(), rng.edge_u32(), flags, &payload, rng),
            ));
        }
        Scanner {
            peer,
            frames,
            kind: ActorKind::Scanner,
            note: format!("scanner style {} ({} probes)", style, n),
        }
    }

    /// SYNs on tuples that differ in exactly one component, and repeated SYNs on one tuple
    /// with everything else varied (C06).
    pub fn cookie_pairs(plan: &Plan, rng: &mut Rng, peer: usize) -> Scanner {
        let v6 = rng.chance(1, 2);
        let base = pick_addr(plan, rng, peer, v6, false);
        let sport = rng.edge_port();
        let dport = rng.edge_port();
        let mut frames = Vec::new();
        let mut push = |rng: &mut Rng, a: &Addr, sp: u16, dp: u16| {
            let flags = F_SYN | if rng.chance(1, 4) { *rng.pick(&[F_PSH, F_URG, F_ECE, F_CWR]) } else { 0 };
            let payload = if rng.chance(1, 6) { rng.bytes_range(1, 32) } else { Vec::new() };
            frames.push((
                rng.below(plan.horizon_us),
                tcp_frame(a, sp, dp, rng.edge_u32(), rng.edge_u32(), flags, &payload, rng),
            ));
        };
        push(rng, &base, sport, dport);
        push(rng, &base, sport, dport); // retransmission with other seq/ttl/options
        for _ in 0..rng.range(1, 3) {
            let b1 = 1u16 << rng.below(16);
            push(rng, &base, sport ^ b1, dport);
            let b2 = 1u16 << rng.below(16);
            push(rng, &base, sport, dport ^ b2);
        }
        // another source (other peer of the same family) and another destination
        let other = (peer + 1) % plan.peers.len();
        if other != peer && !plan.peers[other].denied {
            let mut a2 = base.clone();
            a2.smac = plan.peers[other].mac;
            a2.src = if v6 { IpAddr::V6(plan.peers[other].ip6) } else { IpAddr::V4(plan.peers[other].ip4) };
            push(rng, &a2, sport, dport);
        }
        let alt: Option<IpAddr> = if v6 {
            plan.targets6.iter().map(|x| IpAddr::V6(*x)).find(|x| *x != base.dst)
        } else {
            plan.targets4.iter().map(|x| IpAddr::V4(*x)).find(|x| *x != base.dst)
        };
        if let Some(d) = alt {
            let mut a3 = base.clone();
            a3.dst = d;
            a3.dmac = plan.cfg.mac;
            push(rng, &a3, sport, dport);
        }
        // a neighbouring source: one address bit flipped
        {
            let mut a4 = base.clone();
            a4.src = match base.src {
                IpAddr::V4(x) => IpAddr::V4(Ipv4Addr::from(u32::from(x) ^ (1u32 << rng.below(32)))),
                IpAddr::V6(x) => IpAddr::V6(Ipv6Addr::from(u128::from(x) ^ (1u128 << rng.below(128)))),
            };
            push(rng, &a4, sport, dport);
        }
        // special-purpose IPv6 forms embedding the same IPv4 address (IPv4-mapped ::ffff:a.b.c.d,
        // IPv4-compatible ::a.b.c.d): distinct addresses, distinct flows. Only when every
        // destination is handled (no self-IP list) can the destination take such forms too.
        if v6 && plan.cfg.self_ips.is_none() {
            let b = rng.bytes(8);
            let mk = |hi: u16, o: &[u8]| Ipv6Addr::new(0, 0, 0, 0, 0, hi, ((o[0] as u16) << 8) | o[1] as u16, ((o[2] as u16) << 8) | o[3] as u16);
            let mut m = base.clone();
            m.src = IpAddr::V6(mk(0xffff, &b[0..4]));
            m.dst = IpAddr::V6(mk(0xffff, &b[4..8]));
            m.dmac = plan.cfg.mac;
            push(rng, &m, sport, dport);
            let mut m2 = m.clone();
            m2.src = IpAddr::V6(mk(0, &b[0..4]));
            push(rng, &m2, sport, dport);
            let mut m3 = m.clone();
            m3.dst = IpAddr::V6(mk(0, &b[4..8]));
            push(rng, &m3, sport, dport);
        }
        // sport/dport swapped: differs in two components, must not be mistaken for a pair
        push(rng, &base, dport, sport);
        Scanner {
            peer,
            frames,
            kind: ActorKind::CookiePairs,
            note: format!("cookie pairs around {}:{} -> {}:{}", base.src, sport, base.dst, dport),
        }
    }

    /// A burst of unvalidated traffic from many spoofed tuples (C09).
    pub fn flood(plan: &Plan, rng: &mut Rng, peer: usize) -> Scanner {
        let n = rng.range(30, 150);
        let t0 = rng.below(plan.horizon_us);
        let mut frames = Vec::new();
        let style = rng.below(4);
        for k in 0..n {
            let v6 = rng.chance(1, 3);
            let mut a = pick_addr(plan, rng, peer, v6, false);
            // spoofed sources
            a.src = if v6 {
                let b = rng.bytes(16);
                let mut o = [0u8; 16];
                o.copy_from_slice(&b);
                o[0] = 0x20;
                IpAddr::V6(o.into())
            } else {
                IpAddr::V4(Ipv4Addr::new(198, rng.u8(), rng.u8(), rng.u8()))
            };
            let flags = match style {
                0 => F_SYN,
                1 => F_PSH | F_ACK,
                2 => rng.u16() & 0x1ff,
                _ => *rng.pick(&[F_SYN, F_PSH | F_ACK, F_ACK, F_RST, F_FIN | F_ACK]),
            };
            let payload = if flags & F_PSH != 0 { rng.bytes_range(0, 40) } else { Vec::new() };
            frames.push((
                t0 + k * 5,
                tcp_frame(&a, rng.u16(), rng.edge_port(), rng.u32(), rng.edge_u32(), flags, &payload, rng),
            ));
        }
        Scanner {
            peer,
            frames,
            kind: ActorKind::Flood,
            note: format!("flood style {} of {} segments", style, n),
        }
    }

    /// Frames that are mostly noise: random EtherTypes, protocol numbers, raw bytes.
    pub fn noise(plan: &Plan, rng: &mut Rng, peer: usize) -> Scanner {
        let p = &plan.peers[peer];
        let mut frames = Vec::new();
        for _ in 0..rng.range(1, 6) {
            let f = match rng.below(7) {
                0 => rng.bytes_range(0, 13), // shorter than an Ethernet header
                1 => {
                    let et = match rng.below(4) {
                        0 => *rng.pick(&[0x8100u16, 0x88cc, 0x8847, 0x0805, 0x0807, 0x86dc, 0x0000, 0xffff]),
                        _ => rng.u16(),
                    };
                    eth(&plan.cfg.mac, &p.mac, et, &rng.bytes_range(0, 100))
                }
                2 => {
                    // unsupported IP protocol
                    let v6 = rng.chance(1, 2);
                    let a = pick_addr(plan, rng, peer, v6, false);
                    let proto = match rng.below(3) {
                        0 => *rng.pick(&[0u8, 2, 4, 41, 43, 44, 47, 50, 51, 59, 60, 89, 132, 255]),
                        1 => if v6 { P_ICMP } else { P_ICMP6 },
                        _ => rng.u8(),
                    };
                    frame_ip(&a.dmac, &a.smac, &a.src, &a.dst, proto, &rng.bytes_range(0, 60), 64)
                }
                3 => {
                    // known EtherType, truncated or random L3
                    let et = *rng.pick(&[ET_ARP, ET_IP4, ET_IP6]);
                    eth(&plan.cfg.mac, &p.mac, et, &rng.bytes_range(0, 60))
                }
                4 => {
                    // IPv4 with options / odd header fields
                    let a = pick_addr(plan, rng, peer, false, false);
                    if let (IpAddr::V4(s), IpAddr::V4(d)) = (a.src, a.dst) {
                        let o = Ip4Opts {
                            ttl: rng.u8(),
                            id: rng.u16(),
                            flags_frag: *rng.pick(&[0u16, 0x4000, 0x2000, 0x00b9, 0x8000]),
                            tos: rng.u8(),
                            options: rng.bytes_mul(11, 4),
                        };
                        let l4 = udp(rng.u16(), rng.u16(), &rng.bytes(20), &a.src, &a.dst);
                        eth(&a.dmac, &a.smac, ET_IP4, &ipv4(&s, &d, P_UDP, &l4, &o))
                    } else {
                        Vec::new()
                    }
                }
                5 => {
                    // L4 header cut short
                    let v6 = rng.chance(1, 2);
                    let a = pick_addr(plan, rng, peer, v6, false);
                    let proto = *rng.pick(&[P_TCP, P_UDP, if v6 { P_ICMP6 } else { P_ICMP }]);
                    frame_ip(&a.dmac, &a.smac, &a.src, &a.dst, proto, &rng.bytes_range(0, 19), 64)
                }
                _ => {
                    let mut f = eth(&plan.cfg.mac, &p.mac, ET_IP4, &[]);
                    f.extend_from_slice(&rng.bytes_range(0, 400));
                    f
                }
            };
            frames.push((rng.below(plan.horizon_us), f));
        }
        Scanner {
            peer,
            frames,
            kind: ActorKind::Noise,
            note: "noise".into(),
        }
    }
}

impl Actor for Scanner {
    fn peer(&self) -> usize {
        self.peer
    }
    fn kind(&self) -> ActorKind {
        self.kind
    }
    fn start(&mut self, _rng: &mut Rng) -> Vec<Action> {
        self.frames.drain(..).map(|(t, f)| Action::SendAt(t, f)).collect()
    }
    fn describe(&self) -> String {
        self.note.clone()
    }
}

// ------------------------------------------------------------------- mass banner scan

/// What the scanners this responder is built for do: a SYN to very many (address, port) pairs
/// from one source, and on every SYN-ACK the handshake is completed with a short probe. Every
/// connection validates its cookie, so the connection table grows by one entry per connection.
pub struct BannerScan {
    pub peer: usize,
    pub a: Addr,
    pub base_sport: u16,
    pub n: u32,
    pub start_us: u64,
    pub gap_us: u64,
    pub dports: Vec<u16>,
    pub probe: Vec<u8>,
    answered: std::collections::BTreeSet<(u16, u16)>,
    /// connections (one in 64) that send an HTTP request in two halves, the second one after half
    /// of the scan's other connections have been made: (sport, dport, next seq, ack)
    halves: std::collections::BTreeMap<u32, (u16, u16, u32, u32)>,
}

const SCAN_FIRST_HALF: &[u8] = b"GET /scan HT";
const SCAN_SECOND_HALF: &[u8] = b"TP/1.0\r\n\r\n";

impl BannerScan {
    pub fn new(plan: &Plan, rng: &mut Rng, peer: usize, n: u32) -> BannerScan {
        let v6 = rng.chance(1, 3);
        let mut a = pick_addr(plan, rng, peer, v6, false);
        a.dmac = plan.cfg.mac;
        a.smac = plan.peers[peer].mac;
        let probe = match rng.below(4) {
            0 => b"x".to_vec(),
            1 => b"GET / HTTP/1.0\r\n\r\n".to_vec(),
            2 => b"\r\n".to_vec(),
            _ => b"SSH-2.0-scan\r\n".to_vec(),
        };
        BannerScan {
            peer,
            a,
            base_sport: rng.range(1024, 40000) as u16,
            n,
            start_us: rng.below(plan.horizon_us * 2 / 3 + 1),
            gap_us: *rng.pick(&[5u64, 20, 100, 1000]),
            dports: (0..rng.range(1, 4)).map(|_| rng.edge_port()).collect(),
            probe,
            answered: std::collections::BTreeSet::new(),
            halves: std::collections::BTreeMap::new(),
        }
    }
    fn tuple(&self, i: u32) -> (u16, u16) {
        (self.base_sport.wrapping_add((i % 20000) as u16), self.dports[(i / 20000) as usize % self.dports.len()].wrapping_add((i / 20000) as u16))
    }
    fn seg(&self, sport: u16, dport: u16, seq: u32, ack: u32, flags: u16, payload: &[u8]) -> Vec<u8> {
        let f = TcpFields {
            sport,
            dport,
            seq,
            ack,
            flags,
            window: 1024,
            urg: 0,
            options: Vec::new(),
        };
        let t = tcp(&f, payload, &self.a.src, &self.a.dst);
        frame_ip(&self.a.dmac, &self.a.smac, &self.a.src, &self.a.dst, P_TCP, &t, 64)
    }
}

impl Actor for BannerScan {
    fn peer(&self) -> usize {
        self.peer
    }
    fn kind(&self) -> ActorKind {
        ActorKind::Flood
    }
    fn start(&mut self, _rng: &mut Rng) -> Vec<Action> {
        (0..self.n)
            .map(|i| {
                let (sp, dp) = self.tuple(i);
                Action::SendAt(self.start_us + i as u64 * self.gap_us, self.seg(sp, dp, 0x1000_0000 + i, 0, F_SYN, &[]))
            })
            .collect()
    }
    fn on_frame(&mut self, frame: &[u8], _rng: &mut Rng) -> Vec<Action> {
        let p = parse(frame);
        let t = match p.tcp() {
            Some(t) => t,
            None => return Vec::new(),
        };
        if t.flags & 0x1ff != (F_SYN | F_ACK) || p.ip_src() != Some(self.a.dst) || p.ip_dst() != Some(self.a.src) {
            return Vec::new();
        }
        // one of ours? (destination port of the SYN-ACK within the scan's source port range)
        let off = t.dport.wrapping_sub(self.base_sport) as u32;
        if off >= self.n.min(20000) || !self.answered.insert((t.dport, t.sport)) {
            return Vec::new();
        }
        if off % 64 == 7 {
            // a slow client in the middle of the scan: its request straddles half of the scan
            let ack = t.seq.wrapping_add(1);
            self.halves.insert(off, (t.dport, t.sport, t.ack.wrapping_add(SCAN_FIRST_HALF.len() as u32), ack));
            let wait = (self.n as u64 / 2 + 40) * self.gap_us.max(1) + 500;
            return vec![Action::Send(self.seg(t.dport, t.sport, t.ack, ack, F_PSH | F_ACK, SCAN_FIRST_HALF)), Action::Timer(wait, off)];
        }
        vec![Action::Send(self.seg(t.dport, t.sport, t.ack, t.seq.wrapping_add(1), F_PSH | F_ACK, &self.probe))]
    }
    fn on_timer(&mut self, token: u32, _rng: &mut Rng) -> Vec<Action> {
        match self.halves.remove(&token) {
            Some((sp, dp, seq, ack)) => vec![Action::Send(self.seg(sp, dp, seq, ack, F_PSH | F_ACK, SCAN_SECOND_HALF))],
            None => Vec::new(),
        }
    }
    fn describe(&self) -> String {
        format!(
            "banner scan of {} connections {} -> {} ports {:?} every {} us, probe {} bytes",
            self.n,
            self.a.src,
            self.a.dst,
            self.dports,
            self.gap_us,
            self.probe.len()
        )
    }
}

// ------------------------------------------------------------------- twins

impl TcpClient {
    /// Same byte streams on another flow: other ports and/or IP version (C19) and/or another
    /// composition into segments (C11). Starts at the same simulated instant.
    pub fn twin(&self, plan: &Plan, rng: &mut Rng, focus: &Focus, recut: bool, readdr: bool) -> TcpClient {
        let mut a = self.a.clone();
        let mut sport = self.sport;
        let mut dport = self.dport;
        if readdr && rng.chance(1, 2) {
            // exactly one component of the tuple differs: whatever the responder keeps per
            // "endpoint" under too small a key (a cache, a last-seen field) shows as interference
            let is6 = matches!(a.src, IpAddr::V6(_));
            match rng.below(4) {
                0 => dport = if rng.chance(1, 2) { rng.edge_port() } else { dport.wrapping_add(rng.range(1, 2000) as u16) },
                1 => sport = sport.wrapping_add(rng.range(1, 1000) as u16),
                2 => {
                    let b = pick_addr(plan, rng, self.peer, is6, false);
                    a.dst = b.dst;
                    a.dmac = b.dmac;
                }
                _ => {
                    a.src = match a.src {
                        IpAddr::V4(x) => IpAddr::V4(Ipv4Addr::from(u32::from(x) ^ (1u32 << rng.below(32)))),
                        IpAddr::V6(x) => IpAddr::V6(Ipv6Addr::from(u128::from(x) ^ (1u128 << rng.below(128)))),
                    };
                }
            }
            if a.src == self.a.src && a.dst == self.a.dst && sport == self.sport && dport == self.dport {
                sport = sport.wrapping_add(1);
            }
        } else if readdr {
            let v6 = if rng.chance(1, 2) { !matches!(a.src, IpAddr::V6(_)) } else { matches!(a.src, IpAddr::V6(_)) };
            a = pick_addr(plan, rng, self.peer, v6, false);
            sport = rng.edge_port();
            dport = rng.edge_port();
        } else {
            // same addresses: must at least be another flow
            sport = sport.wrapping_add(rng.range(1, 1000) as u16);
        }
        let mut msgs = self.msgs.clone();
        if recut {
            for m in msgs.iter_mut() {
                let sg = rng.below(1000) < focus.segment_pm;
                m.cuts = gen_cuts(rng, m.bytes.len(), sg, m.app);
            }
        }
        TcpClient {
            peer: self.peer,
            a,
            sport,
            dport,
            isn: rng.edge_u32(),
            msgs,
            syn_flags: F_SYN,
            data_flags: self.data_flags,
            first_ack: AckMode::Correct,
            retry_correct: false,
            pre_data: false,
            close: self.close,
            start_us: self.start_us,
            gap_us: self.gap_us,
            rto_us: self.rto_us,
            ttl: self.ttl,
            window: rng.u16(),
            options: Vec::new(),
            data_options: Vec::new(),
            resyn: false,
            rexmit: 0,
            urg_ptr: 0,
            cookie: None,
            syn_tries: 0,
            sent_data: false,
        }
    }
}

impl TcpClient {
    /// A neighbouring flow: same ports and destination, source address differing in one bit,
    /// other data. Any state shared between the two flows shows as interference (C08).
    pub fn neighbour(&self, rng: &mut Rng, focus: &Focus) -> TcpClient {
        let mut a = self.a.clone();
        a.src = match a.src {
            IpAddr::V4(x) => IpAddr::V4(Ipv4Addr::from(u32::from(x) ^ (1u32 << rng.below(32)))),
            IpAddr::V6(x) => IpAddr::V6(Ipv6Addr::from(u128::from(x) ^ (1u128 << rng.below(128)))),
        };
        let n = rng.range(1, 2);
        let msgs = (0..n).map(|_| Message::gen(rng, focus, true)).collect();
        TcpClient {
            peer: self.peer,
            a,
            sport: self.sport,
            dport: self.dport,
            isn: rng.edge_u32(),
            msgs,
            syn_flags: F_SYN,
            data_flags: F_PSH | F_ACK,
            first_ack: AckMode::Correct,
            retry_correct: false,
            pre_data: false,
            close: 0,
            start_us: self.start_us + rng.below(200_000),
            gap_us: self.gap_us,
            rto_us: self.rto_us,
            ttl: self.ttl,
            window: rng.u16(),
            options: Vec::new(),
            data_options: Vec::new(),
            resyn: false,
            rexmit: 0,
            urg_ptr: 0,
            cookie: None,
            syn_tries: 0,
            sent_data: false,
        }
    }
}

impl UdpClient {
    pub fn twin(&self, plan: &Plan, rng: &mut Rng) -> UdpClient {
        if rng.chance(1, 2) {
            // exactly one component of the tuple differs (see TcpClient::twin)
            let mut t = UdpClient {
                peer: self.peer,
                a: self.a.clone(),
                sport: self.sport,
                dport: self.dport,
                msgs: self.msgs.clone(),
                ttl: self.ttl,
                no_csum: self.no_csum,
            };
            let is6 = matches!(t.a.src, IpAddr::V6(_));
            match rng.below(4) {
                0 => t.dport = if rng.chance(1, 2) { rng.edge_port() } else { t.dport.wrapping_add(rng.range(1, 2000) as u16) },
                1 => t.sport = t.sport.wrapping_add(rng.range(1, 1000) as u16),
                2 => {
                    let b = pick_addr(plan, rng, self.peer, is6, false);
                    t.a.dst = b.dst;
                    t.a.dmac = b.dmac;
                }
                _ => {
                    t.a.src = match t.a.src {
                        IpAddr::V4(x) => IpAddr::V4(Ipv4Addr::from(u32::from(x) ^ (1u32 << rng.below(32)))),
                        IpAddr::V6(x) => IpAddr::V6(Ipv6Addr::from(u128::from(x) ^ (1u128 << rng.below(128)))),
                    };
                }
            }
            return t;
        }
        let v6 = if rng.chance(1, 2) { !matches!(self.a.src, IpAddr::V6(_)) } else { matches!(self.a.src, IpAddr::V6(_)) };
        UdpClient {
            peer: self.peer,
            a: pick_addr(plan, rng, self.peer, v6, false),
            sport: rng.edge_port(),
            dport: rng.edge_port(),
            msgs: self.msgs.clone(),
            ttl: self.ttl,
            no_csum: self.no_csum,
        }
    }
}
