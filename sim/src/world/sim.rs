//! Discrete-event simulation of one run: a priority queue of (simulated time,
//! sequence number, event); the clock jumps to the next event; every choice is
//! drawn from the run's PRNG. The node is driven step by step through the
//! executor, which records the delivered schedule.

use std::cmp::Reverse;
use std::collections::{BTreeMap, BTreeSet, BinaryHeap};
use std::net::IpAddr;

use crate::exec::{ExecError, Executor, History, Record, Step};
use crate::model::tcp_class;
use crate::model::TcpClass;
use crate::rng::{derive, Rng};
use crate::wire::*;
use crate::world::actors::*;
use crate::world::net::{mangle, reflect, FaultStats};
use crate::world::plan::{ActorKind, Focus, Plan};

enum Ev {
    Timer { actor: usize, token: u32 },
    /// frame arrives at the node
    ToNode { frame: Vec<u8>, reflected: u8 },
    /// frame from the node arrives at a peer
    ToPeer { peer: usize, frame: Vec<u8> },
    Restart { hard: bool },
    ClockJump { delta_ms: i64 },
    Stall { us: u64 },
    Replay,
}

struct Item {
    at: u64,
    seq: u64,
    ev: Ev,
}
impl PartialEq for Item {
    fn eq(&self, o: &Item) -> bool {
        self.at == o.at && self.seq == o.seq
    }
}
impl Eq for Item {}
impl PartialOrd for Item {
    fn partial_cmp(&self, o: &Item) -> Option<std::cmp::Ordering> {
        Some(self.cmp(o))
    }
}
impl Ord for Item {
    fn cmp(&self, o: &Item) -> std::cmp::Ordering {
        (self.at, self.seq).cmp(&(o.at, o.seq))
    }
}

pub struct RunOutcome {
    pub seed: u64,
    pub hist: History,
    pub faults: FaultStats,
    pub actors: Vec<String>,
    pub sim_us: u64,
    pub events: u64,
    /// hash of the sequence of (flow class, frame class) - the run's shape
    pub shape: u64,
}

struct Sim<'p> {
    plan: &'p Plan,
    rng: Rng,
    q: BinaryHeap<Reverse<Item>>,
    seq: u64,
    now: u64,
    stats: FaultStats,
    /// delivered frames kept for the replay fault
    seen: Vec<Vec<u8>>,
    stall_until: u64,
}

impl<'p> Sim<'p> {
    fn push(&mut self, at: u64, ev: Ev) {
        self.seq += 1;
        self.q.push(Reverse(Item { at, seq: self.seq, ev }));
    }

    /// a peer puts a frame on the wire towards the node
    fn net_send(&mut self, at: u64, mut frame: Vec<u8>, reflected: u8) {
        let f = &self.plan.faults;
        if f.drop_pm > 0 && self.rng.below(1000) < f.drop_pm {
            self.stats.hit("drop");
            return;
        }
        let (plan, rng, st) = (self.plan, &mut self.rng, &mut self.stats);
        mangle(&mut frame, &plan.faults, rng, st);
        let mut delay = 50 + self.rng.below(400);
        if f.reorder_pm > 0 && self.rng.below(1000) < f.reorder_pm {
            delay += *self.rng.pick(&[500u64, 2_000, 20_000, 300_000, 2_000_000]);
            self.stats.hit("delay-reorder");
        }
        if f.dup_pm > 0 && self.rng.below(1000) < f.dup_pm {
            let extra = *self.rng.pick(&[1u64, 100, 5_000, 500_000, 5_000_000]);
            self.push(at + delay + extra, Ev::ToNode { frame: frame.clone(), reflected });
            self.stats.hit("duplicate");
        }
        self.push(at + delay, Ev::ToNode { frame, reflected });
    }
}

pub fn build_actors(plan: &Plan, focus: &Focus, rng: &mut Rng) -> Vec<Box<dyn Actor>> {
    let n = rng.range(focus.n_actors.0, focus.n_actors.1) as usize;
    let weights: Vec<u32> = focus.actors.iter().map(|a| a.1).collect();
    let mut actors: Vec<Box<dyn Actor>> = Vec::new();
    let mut tuples: Vec<Tuple> = Vec::new();
    let denied: Vec<usize> = plan.peers.iter().enumerate().filter(|(_, p)| p.denied).map(|(i, _)| i).collect();
    let allowed: Vec<usize> = plan.peers.iter().enumerate().filter(|(_, p)| !p.denied).map(|(i, _)| i).collect();
    for _ in 0..n {
        let kind = focus.actors[rng.weighted(&weights)].0;
        let off = rng.below(1000) < focus.offscope_pm;
        // a third of the off-scope actors are simply hosted by a denied peer
        let peer = if off && !denied.is_empty() && rng.chance(1, 3) {
            *rng.pick(&denied)
        } else if !allowed.is_empty() {
            *rng.pick(&allowed)
        } else {
            0
        };
        let offscope = off && !plan.peers[peer].denied;
        match kind {
            ActorKind::Arp => actors.push(Box::new(ArpActor::new(plan, rng, peer, offscope))),
            ActorKind::Nd => actors.push(Box::new(IcmpActor::nd(plan, rng, peer, offscope))),
            ActorKind::Ping => actors.push(Box::new(IcmpActor::ping(plan, rng, peer, offscope))),
            ActorKind::TcpClient => {
                let c = TcpClient::new(plan, rng, focus, peer, offscope);
                tuples.push((peer, c.a.clone(), c.sport, c.dport));
                if !offscope && rng.chance(1, 8) {
                    let nb = c.neighbour(rng, focus);
                    actors.push(Box::new(nb));
                }
                if !offscope && rng.below(1000) < focus.twin_pm {
                    let recut = rng.chance(2, 3);
                    let readdr = !recut || rng.chance(1, 2);
                    let t = c.twin(plan, rng, focus, recut, readdr);
                    actors.push(Box::new(t));
                }
                actors.push(Box::new(c));
            }
            ActorKind::UdpClient => {
                let c = UdpClient::new(plan, rng, focus, peer, offscope);
                if !offscope && rng.below(1000) < focus.twin_pm {
                    let t = c.twin(plan, rng);
                    actors.push(Box::new(t));
                }
                actors.push(Box::new(c));
            }
            ActorKind::Scanner => actors.push(Box::new(Scanner::new(plan, rng, peer, offscope, &tuples))),
            ActorKind::Noise => actors.push(Box::new(Scanner::noise(plan, rng, peer))),
            ActorKind::CookiePairs => actors.push(Box::new(Scanner::cookie_pairs(plan, rng, peer))),
            ActorKind::Flood => actors.push(Box::new(Scanner::flood(plan, rng, peer))),
        }
    }
    if let Some(nconn) = plan.mass_scan {
        let peer = if !allowed.is_empty() { *rng.pick(&allowed) } else { 0 };
        actors.push(Box::new(BannerScan::new(plan, rng, peer, nconn)));
    }
    actors
}

/// Run one simulated world to completion.
pub fn simulate(seed: u64, focus: &Focus, exec: &mut Executor) -> Result<(Plan, RunOutcome), ExecError> {
    let mut rng = Rng::new(seed);
    let plan = Plan::gen(&mut rng, focus);
    let nonce = format!("#{:016x}", derive(seed, "nonce", 0));
    exec.begin(&plan.cfg, (plan.start_ms as i64 + plan.faults.skew_ms).max(86_400_000) as u64, &nonce)?;
    let mut actors = build_actors(&plan, focus, &mut rng);
    let descr: Vec<String> = actors.iter().map(|a| format!("{:?}@peer{}: {}", a.kind(), a.peer(), a.describe())).collect();
    let start_clock = (plan.start_ms as i64 + plan.faults.skew_ms).max(86_400_000) as u64;
    let mut hist = History::new(plan.cfg.clone(), start_clock);
    let mut sim = Sim {
        plan: &plan,
        rng,
        q: BinaryHeap::new(),
        seq: 0,
        now: 0,
        stats: FaultStats::default(),
        seen: Vec::new(),
        stall_until: 0,
    };
    // scheduled faults
    for _ in 0..plan.faults.soft_restarts {
        let t = sim.rng.below(plan.horizon_us);
        sim.push(t, Ev::Restart { hard: false });
    }
    for _ in 0..plan.faults.hard_restarts {
        let t = sim.rng.below(plan.horizon_us);
        sim.push(t, Ev::Restart { hard: true });
    }
    for _ in 0..plan.faults.clock_jumps {
        let t = sim.rng.below(plan.horizon_us);
        let d = match sim.rng.below(4) {
            0 => -(sim.rng.range(1, 3_600_000) as i64),
            1 => sim.rng.range(1, 1000) as i64,
            2 => sim.rng.range(1000, 86_400_000) as i64,
            _ => sim.rng.range(86_400_000, 10 * 365 * 86_400_000) as i64,
        };
        sim.push(t, Ev::ClockJump { delta_ms: d });
    }
    for _ in 0..plan.faults.stalls {
        let t = sim.rng.below(plan.horizon_us);
        let us = sim.rng.range(10_000, 3_000_000);
        sim.push(t, Ev::Stall { us });
    }
    if plan.faults.replay_pm > 0 {
        let n = 1 + plan.faults.replay_pm / 40;
        for _ in 0..n {
            let t = sim.rng.below(plan.horizon_us + 2_000_000);
            sim.push(t, Ev::Replay);
        }
    }
    // actors start
    for i in 0..actors.len() {
        let acts = actors[i].start(&mut sim.rng);
        apply(&mut sim, i, acts, 0);
    }
    let mut skew: i64 = plan.faults.skew_ms;
    let mut last_clock = start_clock;
    let mut last_mono: u64 = 0;
    let mut frames = 0usize;
    let mut events = 0u64;
    let mac_to_peer: BTreeMap<Mac, usize> = plan.peers.iter().enumerate().map(|(i, p)| (p.mac, i)).collect();
    // clients may pause for minutes between segments: leave room behind the horizon
    let hard_cap = plan.horizon_us + 3_700_000_000;
    let mut died = false;
    while let Some(Reverse(item)) = sim.q.pop() {
        if item.at > hard_cap || died {
            break;
        }
        events += 1;
        sim.now = item.at.max(sim.now);
        match item.ev {
            Ev::Timer { actor, token } => {
                let acts = actors[actor].on_timer(token, &mut sim.rng);
                let now = sim.now;
                apply(&mut sim, actor, acts, now);
            }
            Ev::ToPeer { peer, frame } => {
                let now = sim.now;
                for i in 0..actors.len() {
                    if actors[i].peer() == peer {
                        let acts = actors[i].on_frame(&frame, &mut sim.rng);
                        apply(&mut sim, i, acts, now);
                    }
                }
            }
            Ev::Restart { hard } => {
                let st = if hard { Step::Hard } else { Step::Soft };
                match exec.step(&st)? {
                    Ok(_) => {}
                    Err(_) => {}
                }
                hist.recs.push(Record {
                    step: st,
                    obs: None,
                    clock: exec.clock(),
                    epoch: exec.epoch(),
                });
                sim.stats.hit(if hard { "restart-hard" } else { "restart-soft" });
            }
            Ev::ClockJump { delta_ms } => {
                skew += delta_ms;
                sim.stats.hit(if delta_ms < 0 { "clock-jump-back" } else { "clock-jump-forward" });
            }
            Ev::Stall { us } => {
                // the node is not scheduled for a while: arrivals queue up and are then delivered back to back
                sim.stall_until = sim.now + us;
                sim.stats.hit("stall");
            }
            Ev::Replay => {
                if !sim.seen.is_empty() {
                    let k = sim.rng.usize_below(sim.seen.len());
                    let f = sim.seen[k].clone();
                    let now = sim.now;
                    sim.push(now + 10, Ev::ToNode { frame: f, reflected: 0 });
                    sim.stats.hit("replay");
                }
            }
            Ev::ToNode { frame, reflected } => {
                if sim.now < sim.stall_until {
                    let t = sim.stall_until;
                    sim.push(t, Ev::ToNode { frame, reflected });
                    continue;
                }
                if frames >= plan.max_frames {
                    continue;
                }
                frames += 1;
                // wall clock of the node: simulated time + skew, never before 1970-01-02
                let clock = ((plan.start_ms as i64 + (sim.now / 1000) as i64 + skew).max(86_400_000)) as u64;
                if clock != last_clock {
                    last_clock = clock;
                    let st = Step::Clock(clock);
                    let _ = exec.step(&st)?;
                    hist.recs.push(Record {
                        step: st,
                        obs: None,
                        clock,
                        epoch: exec.epoch(),
                    });
                }
                // elapsed time of the node (for clock reads that are not wall-clock reads)
                if sim.now >= last_mono + 1000 || (last_mono == 0 && frames == 1) {
                    last_mono = sim.now.max(1);
                    let st = Step::Mono(sim.now);
                    let _ = exec.step(&st)?;
                    hist.recs.push(Record {
                        step: st,
                        obs: None,
                        clock,
                        epoch: exec.epoch(),
                    });
                }
                let st = Step::Frame(frame.clone());
                match exec.step(&st)? {
                    Ok(obs) => {
                        let obs = obs.unwrap();
                        if sim.seen.len() < 64 {
                            sim.seen.push(frame.clone());
                        }
                        if let Some(r) = &obs.reply {
                            route_reply(&mut sim, &plan, &mac_to_peer, r, reflected);
                        }
                        hist.recs.push(Record {
                            step: st,
                            obs: Some(obs),
                            clock,
                            epoch: exec.epoch(),
                        });
                    }
                    Err(d) => {
                        hist.recs.push(Record {
                            step: st,
                            obs: None,
                            clock,
                            epoch: exec.epoch(),
                        });
                        hist.death = Some((hist.recs.len() - 1, d));
                        died = true;
                    }
                }
            }
        }
    }
    let sim_us = sim.now;
    let stats = sim.stats.clone();
    if !died {
        closing_phase(&plan, &mut hist, exec, last_clock)?;
    }
    let shape = shape_hash(&hist);
    Ok((
        plan.clone(),
        RunOutcome {
            seed,
            hist,
            faults: stats,
            actors: descr,
            sim_us,
            events,
            shape,
        },
    ))
}

fn apply(sim: &mut Sim, actor: usize, acts: Vec<Action>, now: u64) {
    for a in acts {
        match a {
            Action::Send(f) => sim.net_send(now, f, 0),
            Action::SendAt(d, f) => sim.net_send(now + d, f, 0),
            Action::Timer(d, token) => sim.push(now + d, Ev::Timer { actor, token }),
        }
    }
}

fn route_reply(sim: &mut Sim, plan: &Plan, mac_to_peer: &BTreeMap<Mac, usize>, r: &[u8], reflected: u8) {
    let now = sim.now;
    // reflect: the reply comes straight back, re-addressed (chains up to 8 long)
    if plan.faults.reflect_pm > 0 && reflected < 8 && (reflected > 0 || sim.rng.below(1000) < plan.faults.reflect_pm) {
        if let Some(f) = reflect(r) {
            sim.stats.hit("reflect");
            let d = 100 + sim.rng.below(1000);
            // reflected frames bypass the other faults so that the chain is what is judged
            sim.push(now + d, Ev::ToNode { frame: f, reflected: reflected + 1 });
            return;
        }
    }
    if r.len() < 6 {
        return;
    }
    let mut dst = [0u8; 6];
    dst.copy_from_slice(&r[..6]);
    if plan.faults.icmp_error_pm > 0 && sim.rng.below(1000) < plan.faults.icmp_error_pm {
        if let Some(f) = crate::world::net::icmp_error_for(r, &mut sim.rng) {
            sim.stats.hit("icmp-error-about-a-reply");
            let d = 200 + sim.rng.below(2000);
            sim.net_send(now + d, f, 0);
        }
    }
    if let Some(peer) = mac_to_peer.get(&dst) {
        if plan.faults.drop_reply_pm > 0 && sim.rng.below(1000) < plan.faults.drop_reply_pm {
            sim.stats.hit("drop-reply");
            return;
        }
        let d = 50 + sim.rng.below(400);
        sim.push(now + d, Ev::ToPeer { peer: *peer, frame: r.to_vec() });
    }
}

/// After the last event: learn the cookie of every flow that sent data but was never seen
/// with a SYN (one plain SYN per such flow), then the canary ARP request.
fn closing_phase(plan: &Plan, hist: &mut History, exec: &mut Executor, clock: u64) -> Result<(), ExecError> {
    let mut need: BTreeSet<FlowKey> = BTreeSet::new();
    let mut have: BTreeSet<FlowKey> = BTreeSet::new();
    let mut macs: BTreeMap<FlowKey, (Mac, Mac)> = BTreeMap::new();
    for r in &hist.recs {
        if let (Step::Frame(f), Some(obs)) = (&r.step, &r.obs) {
            let p = parse(f);
            if let (Some(t), Some(fk), Some(e)) = (p.tcp(), p.flow(), &p.eth) {
                match tcp_class(t.flags) {
                    TcpClass::Data => {
                        need.insert(fk.clone());
                        macs.entry(fk).or_insert((e.dst, e.src));
                    }
                    TcpClass::Syn => {
                        if obs.reply.as_ref().map(|x| crate::model::is_synack(&parse(x))).unwrap_or(false) {
                            have.insert(fk);
                        }
                    }
                    _ => {}
                }
            }
        }
    }
    let mut extra: Vec<Vec<u8>> = Vec::new();
    for fk in need.difference(&have) {
        let (_, smac) = macs[fk];
        let f = TcpFields {
            sport: fk.sport,
            dport: fk.dport,
            seq: 0x1000,
            ack: 0,
            flags: F_SYN,
            window: 1024,
            urg: 0,
            options: Vec::new(),
        };
        let seg = tcp(&f, &[], &fk.src, &fk.dst);
        extra.push(frame_ip(&plan.cfg.mac, &smac, &fk.src, &fk.dst, P_TCP, &seg, 64));
        if extra.len() >= 400 {
            break;
        }
    }
    // canary
    if let Some(p) = plan.peers.iter().find(|p| !p.denied) {
        let tpa = plan.targets4[0];
        let f = ArpFields {
            htype: 1,
            ptype: 0x0800,
            hlen: 6,
            plen: 4,
            op: 1,
            sha: p.mac,
            spa: p.ip4.octets(),
            tha: [0; 6],
            tpa: tpa.octets(),
        };
        extra.push(eth(&BROADCAST, &p.mac, ET_ARP, &arp(&f)));
    }
    for f in extra {
        let st = Step::Frame(f);
        match exec.step(&st)? {
            Ok(obs) => hist.recs.push(Record {
                step: st,
                obs,
                clock,
                epoch: exec.epoch(),
            }),
            Err(d) => {
                hist.recs.push(Record {
                    step: st,
                    obs: None,
                    clock,
                    epoch: exec.epoch(),
                });
                hist.death = Some((hist.recs.len() - 1, d));
                break;
            }
        }
    }
    Ok(())
}

fn shape_hash(h: &History) -> u64 {
    let mut x: u64 = 0xcbf29ce484222325;
    let mut mix = |v: u64| {
        x ^= v;
        x = x.wrapping_mul(0x100000001b3);
    };
    let mut flows: BTreeMap<(Option<IpAddr>, Option<IpAddr>, Option<(u16, u16)>), u64> = BTreeMap::new();
    for r in &h.recs {
        match &r.step {
            Step::Frame(f) => {
                let p = parse(f);
                let n = flows.len() as u64;
                let id = *flows.entry((p.ip_src(), p.ip_dst(), p.ports())).or_insert(n);
                let class = match &p.l4 {
                    L4::Tcp(t) => 0x100 | (t.flags as u64 & 0xff),
                    L4::Udp(_) => 0x200,
                    L4::Icmp4(i) => 0x300 | i.ty as u64,
                    L4::Icmp6(i) => 0x400 | i.ty as u64,
                    _ => match &p.l3 {
                        L3::Arp(_) => 0x500,
                        _ => 0x600,
                    },
                };
                let answered = r.obs.as_ref().map(|o| o.reply.is_some() as u64).unwrap_or(2);
                mix(id << 16 | class << 2 | answered);
            }
            Step::Soft => mix(0xfffe),
            Step::Hard => mix(0xffff),
            Step::Clock(_) | Step::Mono(_) => {}
        }
    }
    x
}
