//! The simulated world: one real responder node, many simulated peers on a
//! simulated Ethernet segment with faults, a simulated wall clock, restarts.

pub mod actors;
pub mod net;
pub mod plan;
pub mod sim;
