//! Minimisation of a failing schedule: ddmin over the step list, then per-frame
//! shrinking. A candidate is kept only if the same rule of the same property
//! (same canonical key) still fires when it is executed on a fresh node.

use crate::exec::{ExecError, Executor, History, Step};
use crate::node::Config;
use crate::oracle::{self, Aux, Tally, Violation};

pub struct Shrinker<'a, 'b> {
    pub exec: &'a mut Executor<'b>,
    pub aux: &'a mut Executor<'b>,
    pub cfg: Config,
    pub start_ms: u64,
    pub prop: String,
    pub key: String,
    pub nonce: String,
    pub pick: u64,
    pub samples: usize,
    pub executions: usize,
    pub budget: usize,
    /// wall-clock cap for the whole minimisation (a hanging node costs one watchdog period per execution)
    pub deadline: std::time::Instant,
}

impl<'a, 'b> Shrinker<'a, 'b> {
    /// Execute `steps` and return the matching violation, if it still fires.
    pub fn fires(&mut self, steps: &[Step]) -> Result<Option<(Violation, History)>, ExecError> {
        self.executions += 1;
        if std::time::Instant::now() > self.deadline {
            // out of time: behave as "budget exhausted" for every caller
            self.executions = self.executions.max(self.budget);
        }
        let h = self.exec.run(&self.cfg, self.start_ms, &self.nonce, steps)?;
        let mut t = Tally::default();
        let mut aux = Aux {
            exec: self.aux,
            nonce: format!("{}a", self.nonce),
            harness_error: None,
            samples: self.samples,
            pick: self.pick,
        };
        let vs = oracle::judge(&self.prop, &h, &mut aux, &mut t);
        if let Some(e) = aux.harness_error {
            return Err(ExecError::Harness(e));
        }
        Ok(vs.into_iter().find(|v| v.key == self.key).map(|v| (v, h)))
    }

    pub fn minimise(&mut self, steps: Vec<Step>) -> Result<Vec<Step>, ExecError> {
        let mut cur = steps;
        // cut everything after the violating step first (cheap, big win)
        if let Some((v, _)) = self.fires(&cur)? {
            let keep = (v.step + 1).min(cur.len());
            if keep < cur.len() {
                let cand = cur[..keep].to_vec();
                if self.fires(&cand)?.is_some() {
                    cur = cand;
                }
            }
        } else {
            return Ok(cur);
        }
        // ddmin
        let mut n = 2usize;
        while cur.len() >= 2 && self.executions < self.budget {
            let chunk = (cur.len() + n - 1) / n;
            let mut reduced = false;
            let mut i = 0;
            while i < cur.len() && self.executions < self.budget {
                let end = (i + chunk).min(cur.len());
                let mut cand = cur[..i].to_vec();
                cand.extend_from_slice(&cur[end..]);
                if !cand.is_empty() && self.fires(&cand)?.is_some() {
                    cur = cand;
                    n = (n - 1).max(2);
                    reduced = true;
                    // stay at the same index: the next chunk moved here
                } else {
                    i = end;
                }
            }
            if !reduced {
                if chunk <= 1 {
                    break;
                }
                n = (n * 2).min(cur.len());
            }
        }
        // drop clock steps one by one, then shrink frames from the tail
        let mut i = 0;
        while i < cur.len() && self.executions < self.budget {
            if matches!(cur[i], Step::Clock(_) | Step::Mono(_)) {
                let mut cand = cur.clone();
                cand.remove(i);
                if self.fires(&cand)?.is_some() {
                    cur = cand;
                    continue;
                }
            }
            i += 1;
        }
        for i in 0..cur.len() {
            if let Step::Frame(f) = cur[i].clone() {
                let mut best = f.clone();
                // remove trailing bytes: halve the removable tail until it stops working
                let mut cut = best.len() / 2;
                while cut >= 1 && self.executions < self.budget {
                    if best.len() > cut {
                        let mut cand = cur.clone();
                        let nf = best[..best.len() - cut].to_vec();
                        cand[i] = Step::Frame(nf.clone());
                        if self.fires(&cand)?.is_some() {
                            best = nf;
                            cur = cand;
                            continue;
                        }
                    }
                    cut /= 2;
                }
            }
        }
        Ok(cur)
    }
}
