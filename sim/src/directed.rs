//! Directed scenarios: deterministic sweeps that are still driven through the
//! real node and judged by the same oracles (all 512 TCP flag values, every
//! truncation length of canonical frames, ...).

use crate::exec::Step;
use crate::node::Config;

pub type Scenario = (String, Config, u64, Vec<Step>);

pub fn scenarios(_prop: &str, _tier: &str, _seed: u64) -> Vec<Scenario> {
    Vec::new()
}
