//! Directed scenarios: deterministic sweeps that are still driven through the
//! real node and judged by the same oracles (all 512 TCP flag values in four
//! flow states, every truncation length of canonical frames, DNS id sweep
//! aiming at a zero UDP checksum over IPv6, all ICMP type/code pairs, all
//! 1- and 2-cut compositions of canonical HTTP / RPC streams, every byte at
//! each wildcard position of the RPC signatures).
//!
//! The SipHash cookie *predictor* below only aims probes (it lets a static
//! schedule validate a flow); it is never used as an oracle.

use std::hash::Hasher;
use std::net::{IpAddr, Ipv4Addr, Ipv6Addr};

use siphasher::sip::SipHasher24;

use crate::apps::{dns, http, rpc, smb, ssh, stun};
use crate::exec::Step;
use crate::node::{Build, Config, LoggerKind};
use crate::rng::{derive, Rng};
use crate::wire::*;

pub struct Scenario {
    pub name: String,
    pub cfg: Config,
    pub start_ms: u64,
    pub steps: Vec<Step>,
    /// auxiliary-execution budget for the oracle on this scenario
    pub samples: usize,
}

const NODE_MAC: Mac = [0xc0, 0xff, 0xee, 0xc0, 0xff, 0xee];
const PEER_MAC: Mac = [0x02, 0, 0, 0, 0, 0x01];
const START: u64 = 1_700_000_000_000;

fn node4() -> Ipv4Addr {
    Ipv4Addr::new(10, 0, 0, 1)
}
fn node6() -> Ipv6Addr {
    Ipv6Addr::new(0x2001, 0xdb8, 0, 0, 0, 0, 0, 1)
}
fn peer4() -> Ipv4Addr {
    Ipv4Addr::new(192, 0, 2, 1)
}
fn peer6() -> Ipv6Addr {
    Ipv6Addr::new(0x2001, 0xdb8, 0xffff, 0, 0, 0, 0, 1)
}

fn cfg(build: Build, logger: LoggerKind, level: u8, key: [u64; 2]) -> Config {
    Config {
        mac: NODE_MAC,
        key,
        self_ips: Some(vec![IpAddr::V4(node4()), IpAddr::V6(node6())]),
        deny: None,
        logger,
        level,
        build,
        iface: None,
        iface_ips: Vec::new(),
        iface_flags: 0,
    }
}

/// Predict the SYN cookie the way masscan/masscanned compute it (aiming only).
pub fn predict_cookie(key: &[u64; 2], src: &IpAddr, dst: &IpAddr, sport: u16, dport: u16) -> u32 {
    let mut sip = SipHasher24::new_with_keys(key[0], key[1]);
    match (src, dst) {
        (IpAddr::V4(s), IpAddr::V4(d)) => {
            sip.write_u32(u32::from(*s));
            sip.write_u32(u32::from(*d));
        }
        (IpAddr::V6(s), IpAddr::V6(d)) => {
            sip.write_u128(u128::from(*s));
            sip.write_u128(u128::from(*d));
        }
        _ => {}
    }
    sip.write_u16(sport);
    sip.write_u16(dport);
    (sip.finish() & 0xffff_ffff) as u32
}

struct Flow {
    src: IpAddr,
    dst: IpAddr,
    sport: u16,
    dport: u16,
}

impl Flow {
    fn v4(sport: u16, dport: u16) -> Flow {
        Flow {
            src: IpAddr::V4(peer4()),
            dst: IpAddr::V4(node4()),
            sport,
            dport,
        }
    }
    fn v6(sport: u16, dport: u16) -> Flow {
        Flow {
            src: IpAddr::V6(peer6()),
            dst: IpAddr::V6(node6()),
            sport,
            dport,
        }
    }
    fn seg(&self, seq: u32, ack: u32, flags: u16, payload: &[u8]) -> Vec<u8> {
        let f = TcpFields {
            sport: self.sport,
            dport: self.dport,
            seq,
            ack,
            flags,
            window: 4096,
            urg: 0,
            options: Vec::new(),
        };
        let t = tcp(&f, payload, &self.src, &self.dst);
        frame_ip(&NODE_MAC, &PEER_MAC, &self.src, &self.dst, P_TCP, &t, 64)
    }
    fn udp(&self, payload: &[u8]) -> Vec<u8> {
        let u = udp(self.sport, self.dport, payload, &self.src, &self.dst);
        frame_ip(&NODE_MAC, &PEER_MAC, &self.src, &self.dst, P_UDP, &u, 64)
    }
    fn cookie(&self, key: &[u64; 2]) -> u32 {
        predict_cookie(key, &self.src, &self.dst, self.sport, self.dport)
    }
}

fn arp_request(tpa: Ipv4Addr) -> Vec<u8> {
    let f = ArpFields {
        htype: 1,
        ptype: 0x0800,
        hlen: 6,
        plen: 4,
        op: 1,
        sha: PEER_MAC,
        spa: peer4().octets(),
        tha: [0; 6],
        tpa: tpa.octets(),
    };
    eth(&BROADCAST, &PEER_MAC, ET_ARP, &arp(&f))
}

fn ns(target: Ipv6Addr) -> Vec<u8> {
    let o = target.octets();
    let dst = Ipv6Addr::new(0xff02, 0, 0, 0, 0, 1, 0xff00 | o[13] as u16, ((o[14] as u16) << 8) | o[15] as u16);
    let mut body = vec![0u8; 4];
    body.extend_from_slice(&o);
    body.extend_from_slice(&[1, 1]);
    body.extend_from_slice(&PEER_MAC);
    let seg = icmp6(135, 0, &body, &peer6(), &dst);
    eth(&[0x33, 0x33, 0xff, o[13], o[14], o[15]], &PEER_MAC, ET_IP6, &ipv6(&peer6(), &dst, P_ICMP6, &seg, 255))
}

fn echo4(ty: u8, code: u8, data: &[u8]) -> Vec<u8> {
    let mut rest = vec![0x12, 0x34, 0, 1];
    rest.extend_from_slice(data);
    frame_ip(&NODE_MAC, &PEER_MAC, &IpAddr::V4(peer4()), &IpAddr::V4(node4()), P_ICMP, &icmp4(ty, code, &rest), 64)
}

fn echo6(ty: u8, code: u8, data: &[u8]) -> Vec<u8> {
    let mut rest = vec![0x12, 0x34, 0, 1];
    rest.extend_from_slice(data);
    let seg = icmp6(ty, code, &rest, &peer6(), &node6());
    frame_ip(&NODE_MAC, &PEER_MAC, &IpAddr::V6(peer6()), &IpAddr::V6(node6()), P_ICMP6, &seg, 64)
}

/// Canonical application requests (name, bytes, udp-capable, tcp-capable).
fn canonical_apps(rng: &mut Rng) -> Vec<(&'static str, Vec<u8>, Vec<u8>)> {
    // (name, datagram form, stream form)
    let httpreq = b"GET /index.html HTTP/1.1\r\nHost: example.org\r\nUser-Agent: x\r\n\r\n".to_vec();
    let sshid = b"SSH-2.0-OpenSSH_8.9p1 Ubuntu-3\r\n".to_vec();
    let ghost = b"Gh0st\xad\x00\x00\x00\xe0\x00\x00\x00x\x9cKS``\x98\xc3\xc0\xc0\xc0\x06\xc4\x8c".to_vec();
    let call = rpc::Call {
        xid: 0x7265_1d13,
        msg_type: 0,
        rpcvers: 2,
        prog: 100000,
        vers: 2,
        proc_: 3,
        cred_flavor: 0,
        cred: Vec::new(),
        verf_flavor: 0,
        verf: Vec::new(),
        args: vec![0, 1, 0x86, 0xa3, 0, 0, 0, 3, 0, 0, 0, 6, 0, 0, 0, 0],
    };
    let dnsq = dns::build_query(0x1337, 0x0100, &[(b"\x03www\x07example\x03com\x00".to_vec(), 1, 1)]);
    let mut v = vec![
        ("http", httpreq.clone(), httpreq),
        ("ssh", sshid.clone(), sshid),
        ("ghost", ghost.clone(), ghost),
        ("stun-magic", stun::build(1, &stun::gen_id(rng, true), &[(0x8022, rng.bytes(260))]), stun::build(1, &stun::gen_id(rng, true), &[(0x8022, rng.bytes(260))])),
        ("stun-empty", stun::build(1, &stun::gen_id(rng, false), &[]), Vec::new()),
        ("stun-change", stun::build(1, &stun::gen_id(rng, false), &[(3, vec![0, 0, 0, 2])]), Vec::new()),
        ("stun-attrs", stun::build(1, &stun::gen_id(rng, true), &[(3, vec![0, 0, 0, 6]), (1, vec![0, 1, 0, 80, 1, 2, 3, 4]), (0x8022, rng.bytes(256))]), Vec::new()),
        ("dns", dnsq, Vec::new()),
        ("rpc", call.encode(), call.encode_tcp()),
    ];
    let s1 = smb::gen_smb1_negotiate(rng);
    let s2 = smb::gen_smb1_session_setup(rng);
    let s3 = smb::gen_smb2_negotiate(rng);
    let s4 = smb::gen_smb2_session_setup(rng);
    v.push(("smb1-negotiate", s1.clone(), s1));
    v.push(("smb1-session", s2.clone(), s2));
    v.push(("smb2-negotiate", s3.clone(), s3));
    v.push(("smb2-session", s4.clone(), s4));
    let _ = (http::METHODS, ssh::REPLY);
    v
}

/// All truncation lengths of a frame.
fn truncations(f: &[u8], steps: &mut Vec<Step>) {
    for k in 0..f.len() {
        steps.push(Step::Frame(f[..k].to_vec()));
    }
    steps.push(Step::Frame(f.to_vec()));
}

/// A handful of length-field lies for a frame.
fn length_lies(f: &[u8], steps: &mut Vec<Step>) {
    let p = parse(f);
    let vals: [u16; 8] = [0, 1, 7, 19, 20, 0x7fff, 0xfffe, 0xffff];
    match &p.l3 {
        L3::V4(h) => {
            for v in vals {
                let mut g = f.to_vec();
                g[16..18].copy_from_slice(&v.to_be_bytes());
                steps.push(Step::Frame(g));
            }
            for ihl in 0..16u8 {
                let mut g = f.to_vec();
                g[14] = 0x40 | ihl;
                steps.push(Step::Frame(g));
            }
            let _ = h;
        }
        L3::V6(_) => {
            for v in vals {
                let mut g = f.to_vec();
                g[18..20].copy_from_slice(&v.to_be_bytes());
                steps.push(Step::Frame(g));
            }
        }
        _ => {}
    }
    match &p.l4 {
        L4::Tcp(t) => {
            for doff in 0..16u8 {
                let mut g = f.to_vec();
                g[t.seg_off + 12] = (doff << 4) | (g[t.seg_off + 12] & 0x0f);
                steps.push(Step::Frame(g));
            }
        }
        L4::Udp(u) => {
            for v in vals {
                let mut g = f.to_vec();
                g[u.seg_off + 4..u.seg_off + 6].copy_from_slice(&v.to_be_bytes());
                steps.push(Step::Frame(g));
            }
        }
        _ => {}
    }
}

fn sc_c01(seed: u64, thorough: bool) -> Vec<Scenario> {
    let mut out = Vec::new();
    let key = [0u64, 0u64];
    let combos: Vec<(Build, LoggerKind, u8)> = if thorough {
        vec![
            (Build::Debug, LoggerKind::Console, 5),
            (Build::Release, LoggerKind::Logfmt, 5),
            (Build::Debug, LoggerKind::None, 0),
            (Build::Release, LoggerKind::None, 2),
        ]
    } else {
        vec![(Build::Debug, LoggerKind::Console, 5), (Build::Release, LoggerKind::Logfmt, 2)]
    };
    for (ci, (build, logger, level)) in combos.into_iter().enumerate() {
        let mut rng = Rng::new(derive(seed, "directed-c01", ci as u64));
        let c = cfg(build, logger, level, key);
        let apps = canonical_apps(&mut rng);
        // L2/L3 canonical frames, every truncation, length lies
        let mut steps = Vec::new();
        let basics = vec![arp_request(node4()), ns(node6()), echo4(8, 0, b"abcdefgh"), echo6(128, 0, b"abcdefgh"), Flow::v4(40000, 80).seg(1, 0, F_SYN, &[]), Flow::v6(40000, 80).seg(1, 0, F_SYN, &[])];
        for f in &basics {
            truncations(f, &mut steps);
            length_lies(f, &mut steps);
        }
        // neighbour solicitations with every option length byte, and truncated option areas
        for l in 0..=255u8 {
            let o = node6().octets();
            let mut body = vec![0u8; 4];
            body.extend_from_slice(&o);
            body.extend_from_slice(&[if l % 2 == 0 { 1 } else { 14 }, l]);
            body.extend_from_slice(&rng.bytes_range(0, 40));
            let seg = icmp6(135, 0, &body, &peer6(), &node6());
            steps.push(Step::Frame(eth(&NODE_MAC, &PEER_MAC, ET_IP6, &ipv6(&peer6(), &node6(), P_ICMP6, &seg, 255))));
        }
        out.push(Scenario {
            name: format!("c01-basics-{}", ci),
            cfg: c.clone(),
            start_ms: START,
            steps,
            samples: 0,
        });
        // application requests over UDP: every truncation of the datagram payload (headers kept
        // consistent) and every truncation of the frame
        let mut steps = Vec::new();
        for (k, (_name, dgram, _)) in apps.iter().enumerate() {
            for v6 in [false, true] {
                let fl = if v6 { Flow::v6(41000 + k as u16, 3478) } else { Flow::v4(41000 + k as u16, 3478) };
                for cut in 0..=dgram.len() {
                    steps.push(Step::Frame(fl.udp(&dgram[..cut])));
                }
                if !v6 {
                    let f = fl.udp(dgram);
                    truncations(&f, &mut steps);
                    length_lies(&f, &mut steps);
                }
            }
        }
        out.push(Scenario {
            name: format!("c01-udp-apps-{}", ci),
            cfg: c.clone(),
            start_ms: START,
            steps,
            samples: 0,
        });
        // application requests over TCP on validated flows: every prefix as a single segment,
        // then arbitrary follow-ups on the identified flow
        let mut steps = Vec::new();
        let mut port = 42000u16;
        for (_name, _, stream) in apps.iter() {
            if stream.is_empty() {
                continue;
            }
            for cut in (0..=stream.len()).step_by(if thorough { 1 } else { 3 }) {
                port += 1;
                let fl = if cut % 2 == 0 { Flow::v4(port, 445) } else { Flow::v6(port, 445) };
                let ck = fl.cookie(&key);
                steps.push(Step::Frame(fl.seg(100, 0, F_SYN, &[])));
                steps.push(Step::Frame(fl.seg(101, ck.wrapping_add(1), F_PSH | F_ACK, &stream[..cut])));
                // hostile follow-up on the (possibly identified) flow
                let follow = match cut % 4 {
                    0 => rng.bytes_range(0, 64),
                    1 => stream[cut..].to_vec(),
                    2 => apps[rng.usize_below(apps.len())].1.clone(),
                    _ => {
                        let mut m = stream.clone();
                        crate::apps::mutate(&mut m, &mut rng);
                        m
                    }
                };
                steps.push(Step::Frame(fl.seg(101 + cut as u32, ck.wrapping_add(1), F_PSH | F_ACK, &follow)));
            }
        }
        out.push(Scenario {
            name: format!("c01-tcp-apps-{}", ci),
            cfg: c.clone(),
            start_ms: START,
            steps,
            samples: 0,
        });
        // hostile STUN through a completed signature
        let mut steps = Vec::new();
        for k in 0..(if thorough { 4000 } else { 600 }) {
            let m = stun::gen_hostile(&mut rng);
            let fl = if k % 2 == 0 { Flow::v4(43000, 3478) } else { Flow::v6(43000, 3478) };
            steps.push(Step::Frame(fl.udp(&m)));
        }
        // last attribute: announced length 0..24 against 0..announced+5 bytes present, for the two
        // interpreted types and two opaque ones, with and without an attribute in front
        for ty in [1u16, 3, 0x0020, 0x8022] {
            for declared in 0..=24u16 {
                for present in 0..=(declared as usize + 5) {
                    let lead = (declared as usize + present) % 2 == 1;
                    let mut val = rng.bytes(present);
                    if ty == 1 && val.len() >= 2 {
                        val[0] = 0;
                        val[1] = 1 + (present % 2) as u8;
                    }
                    let id = stun::gen_id(&mut rng, present % 5 != 4);
                    let m = stun::tlv_case(&id, ty, declared, &val, lead);
                    let fl = if present % 3 == 2 { Flow::v6(43001, 3478) } else { Flow::v4(43001, 3478) };
                    steps.push(Step::Frame(fl.udp(&m)));
                }
            }
        }
        // ONC-RPC calls whose AUTH_SYS credentials announce every kind of machine-name length
        for announced in [0u32, 1, 3, 4, 255, 256, 0x7fff_ffff, 0x8000_0000, 0xffff_fffc, 0xffff_fffd, 0xffff_fffe, 0xffff_ffff] {
            for present in [0usize, 3, 8] {
                let mut cred = rng.u32().to_be_bytes().to_vec();
                cred.extend_from_slice(&announced.to_be_bytes());
                cred.extend_from_slice(&rng.bytes(present));
                while cred.len() % 4 != 0 {
                    cred.push(0);
                }
                cred.extend_from_slice(&[0, 0, 0, 0, 0, 0, 0, 0, 0, 0, 0, 0]);
                let mut call = rpc::gen_call(&mut rng);
                call.cred_flavor = 1;
                call.cred = cred;
                steps.push(Step::Frame(Flow::v4(43002, 111).udp(&call.encode())));
                let fl = Flow::v6(43100 + (announced % 89) as u16 * 3 + present as u16, 111);
                let ck = fl.cookie(&key);
                steps.push(Step::Frame(fl.seg(0, 0, F_SYN, &[])));
                steps.push(Step::Frame(fl.seg(1, ck.wrapping_add(1), F_PSH | F_ACK, &call.encode_tcp())));
            }
        }
        // counts that pass 8 bits within ONE segment: a call with runs of 255 / 256 / 257 / 1000
        // empty or reply-typed records behind it on an RPC connection
        for (k, n) in [255usize, 256, 257, 1000].into_iter().enumerate() {
            for kind in 0..2u16 {
                let fl = Flow::v4(43400 + k as u16 * 2 + kind, 111);
                let ck = fl.cookie(&key);
                let call = rpc::gen_call(&mut rng);
                let mut seg = call.encode_tcp();
                for _ in 0..n {
                    if seg.len() > 3900 {
                        break;
                    }
                    if kind == 0 {
                        seg.extend_from_slice(&[0x80, 0, 0, 0]);
                    } else {
                        // the shortest reply-typed record: xid, REPLY, MSG_DENIED, AUTH_ERROR, why
                        seg.extend_from_slice(&[0x80, 0, 0, 12]);
                        seg.extend_from_slice(&rng.u32().to_be_bytes());
                        seg.extend_from_slice(&[0, 0, 0, 1, 0, 0, 0, 1]);
                    }
                }
                steps.push(Step::Frame(fl.seg(0, 0, F_SYN, &[])));
                steps.push(Step::Frame(fl.seg(1, ck.wrapping_add(1), F_PSH | F_ACK, &seg)));
            }
        }
        // SMB1 negotiates offering a hundred or two dialects the responder does not know, the
        // names made of bytes above 0x7f (whatever renders, cuts or compares them as text meets
        // multi-byte characters at every offset; both parities)
        for (k, count) in [60usize, 110, 200].into_iter().enumerate() {
            for lead in 0..2usize {
                let mut d = Vec::new();
                for j in 0..count {
                    d.push(2u8);
                    if j == 0 {
                        d.extend(std::iter::repeat(b'x').take(lead));
                    }
                    d.extend(std::iter::repeat(0xe9u8).take(5 + j % 7));
                    d.push(0);
                }
                let mut m = smb::gen_hdr1(&mut rng, 0x72).encode();
                m.push(0);
                m.extend_from_slice(&(d.len() as u16).to_le_bytes());
                m.extend_from_slice(&d);
                let m = smb::nbt(&m);
                steps.push(Step::Frame(Flow::v4(43500 + (k * 2 + lead) as u16, 445).udp(&m)));
                let fl = Flow::v6(43520 + (k * 2 + lead) as u16, 445);
                let ck = fl.cookie(&key);
                steps.push(Step::Frame(fl.seg(0, 0, F_SYN, &[])));
                steps.push(Step::Frame(fl.seg(1, ck.wrapping_add(1), F_PSH | F_ACK, &m)));
            }
        }
        out.push(Scenario {
            name: format!("c01-stun-hostile-{}", ci),
            cfg: c,
            start_ms: START,
            steps,
            samples: 0,
        });
    }
    out
}

/// All 512 flag values on a flow in four states: fresh, validated, after FIN, after restart.
fn sc_flags(seed: u64, thorough: bool) -> Vec<Scenario> {
    let mut out = Vec::new();
    let builds: Vec<Build> = if thorough { vec![Build::Debug, Build::Release] } else { vec![Build::Release] };
    for (bi, build) in builds.into_iter().enumerate() {
        for v6 in [false, true] {
            let mut rng = Rng::new(derive(seed, "directed-flags", bi as u64 * 2 + v6 as u64));
            let key = [rng.u64(), rng.u64()];
            let c = cfg(build, LoggerKind::None, 0, key);
            let mut steps = Vec::new();
            let mk = |sport: u16| if v6 { Flow::v6(sport, 8080) } else { Flow::v4(sport, 8080) };
            // fresh tuples: one per flag value, with and without payload
            for f in 0..512u16 {
                let fl = mk(1000 + f);
                let pay: &[u8] = if f % 3 == 0 { b"x" } else { b"" };
                steps.push(Step::Frame(fl.seg(rng.edge_u32(), rng.edge_u32(), f, pay)));
            }
            // one validated flow, all flag values on it (ack = cookie+1 so that data segments are in sequence)
            let fl = mk(2000);
            let ck = fl.cookie(&key);
            steps.push(Step::Frame(fl.seg(10, 0, F_SYN, &[])));
            steps.push(Step::Frame(fl.seg(11, ck.wrapping_add(1), F_PSH | F_ACK, b"hello")));
            for f in 0..512u16 {
                steps.push(Step::Frame(fl.seg(16, ck.wrapping_add(1), f, if f % 2 == 0 { b"y" } else { b"" })));
            }
            // after FIN
            steps.push(Step::Frame(fl.seg(16, ck.wrapping_add(1), F_FIN | F_ACK, &[])));
            for f in 0..512u16 {
                steps.push(Step::Frame(fl.seg(17, rng.edge_u32(), f, &[])));
            }
            // after restart: the flow must re-validate; SYN policy unchanged
            steps.push(Step::Soft);
            for f in 0..512u16 {
                steps.push(Step::Frame(fl.seg(17, if f % 2 == 0 { ck.wrapping_add(2) } else { rng.u32() }, f, b"z")));
            }
            steps.push(Step::Frame(fl.seg(10, 0, F_SYN, &[])));
            // sequence number wrap-around
            for seq in [0xffff_ffffu32, 0xffff_fffe, 0, 0x7fff_ffff, 0x8000_0000] {
                let f2 = mk(2100 + (seq % 7) as u16);
                let c2 = f2.cookie(&key);
                steps.push(Step::Frame(f2.seg(seq, 0, F_SYN, &[])));
                steps.push(Step::Frame(f2.seg(seq.wrapping_add(1), c2.wrapping_add(1), F_PSH | F_ACK, b"0123456789")));
                steps.push(Step::Frame(f2.seg(seq.wrapping_add(11), c2.wrapping_add(1), F_FIN | F_ACK, &[])));
            }
            out.push(Scenario {
                name: format!("flags-{}-{}", if v6 { "v6" } else { "v4" }, build.as_str()),
                cfg: c,
                start_ms: START,
                steps,
                samples: 4,
            });
        }
    }
    // connections whose cookie, under the production key [0,0], is one of the edge values of the
    // u32 range (found offline with `mcsim hunt-cookie`; the oracles learn the cookie from the
    // SYN-ACK, the prediction only aims): cookie + 1 wraps to 0, and ack = 0 must not be taken
    // for "cookie + 1" when the cookie is 0
    {
        let key0 = [0u64, 0u64];
        let tuples: [(IpAddr, IpAddr, u16); 3] = [
            (
                IpAddr::V6("2001:db8:ffff::41b6:5056".parse().unwrap()),
                IpAddr::V6(node6()),
                40003,
            ), // cookie 0xffffffff
            (IpAddr::V4(Ipv4Addr::new(207, 188, 38, 30)), IpAddr::V4(node4()), 40001), // cookie 0
            (
                IpAddr::V6("2001:db8:ffff::cbaf:47a4".parse().unwrap()),
                IpAddr::V6(node6()),
                40003,
            ), // cookie 0
        ];
        let mut steps = Vec::new();
        for (src, dst, sport) in tuples.iter() {
            let fl = Flow {
                src: *src,
                dst: *dst,
                sport: *sport,
                dport: 80,
            };
            let ck = fl.cookie(&key0);
            steps.push(Step::Frame(fl.seg(5, 0, F_SYN, &[])));
            // wrong acknowledgement numbers first: cookie, cookie + 2, and 0 / 0xffffffff
            for wrong in [ck, ck.wrapping_add(2), if ck == 0 { 0 } else { 0xffff_ffff }] {
                if wrong != ck.wrapping_add(1) {
                    steps.push(Step::Frame(fl.seg(6, wrong, F_PSH | F_ACK, b"GET / HTTP/1.1\r\n\r\n")));
                }
            }
            steps.push(Step::Frame(fl.seg(6, ck.wrapping_add(1), F_PSH | F_ACK, b"GET / HTTP/1.1\r\n\r\n")));
            steps.push(Step::Frame(fl.seg(24, ck.wrapping_add(1), F_FIN | F_ACK, &[])));
        }
        out.push(Scenario {
            name: "edge-cookies".into(),
            cfg: cfg(Build::Debug, LoggerKind::None, 0, key0),
            start_ms: START,
            steps,
            samples: 4,
        });
    }
    out
}

/// DNS id sweep over UDP/IPv6 and UDP/IPv4: one id makes the reply's UDP checksum come out as zero.
fn sc_c04(seed: u64, thorough: bool) -> Vec<Scenario> {
    let mut out = Vec::new();
    let c = cfg(Build::Release, LoggerKind::None, 0, [0, 0]);
    for v6 in [true, false] {
        let fl = if v6 { Flow::v6(5353, 53) } else { Flow::v4(5353, 53) };
        let mut steps = Vec::new();
        let stride = if thorough || v6 { 1 } else { 16 };
        for id in (0..=0xffffu32).step_by(stride) {
            let q = dns::build_query(id as u16, 0x0100, &[(b"\x01a\x00".to_vec(), 1, 1)]);
            steps.push(Step::Frame(fl.udp(&q)));
        }
        out.push(Scenario {
            name: format!("dns-id-sweep-{}", if v6 { "v6" } else { "v4" }),
            cfg: c.clone(),
            start_ms: START,
            steps,
            samples: 0,
        });
    }
    // odd and large payload sizes, echo both versions
    let mut rng = Rng::new(derive(seed, "directed-c04", 0));
    let mut steps = Vec::new();
    for n in (0..1473usize).step_by(if thorough { 1 } else { 13 }) {
        let d = rng.bytes(n);
        steps.push(Step::Frame(echo4(8, 0, &d)));
        steps.push(Step::Frame(echo6(128, 0, &d)));
    }
    // STUN transaction ids: 65536 values of two id bytes over IPv6
    if thorough {
        for x in 0..=0xffffu32 {
            let mut id = [0u8; 16];
            id[..4].copy_from_slice(&stun::MAGIC);
            id[4] = (x >> 8) as u8;
            id[5] = x as u8;
            let m = stun::build(1, &id, &[(0x8022, vec![0u8; 256])]);
            steps.push(Step::Frame(Flow::v6(3478, 3478).udp(&m)));
        }
    }
    out.push(Scenario {
        name: "echo-sizes".into(),
        cfg: c,
        start_ms: START,
        steps,
        samples: 0,
    });
    out
}

/// Every ICMP / ICMPv6 type x code (thorough) or types x {0,1,255} (quick); every ARP opcode.
fn sc_c05(_seed: u64, thorough: bool) -> Vec<Scenario> {
    let c = cfg(Build::Release, LoggerKind::None, 0, [0, 0]);
    let mut steps = Vec::new();
    let codes: Vec<u8> = if thorough { (0..=255).collect() } else { vec![0, 1, 255] };
    for ty in 0..=255u8 {
        for code in &codes {
            steps.push(Step::Frame(echo4(ty, *code, b"data")));
            if ty == 135 {
                // neighbour solicitation with a proper body
                let mut f = ns(node6());
                // patch the code and fix the checksum by rebuilding
                let p = parse(&f);
                if let L4::Icmp6(i) = &p.l4 {
                    let body = f[i.rest_off..i.rest_off + i.rest_len].to_vec();
                    let dst = match p.ip_dst() {
                        Some(IpAddr::V6(d)) => d,
                        _ => node6(),
                    };
                    let seg = icmp6(135, *code, &body, &peer6(), &dst);
                    let l = f.len();
                    f.truncate(l - seg.len());
                    f.extend_from_slice(&seg);
                }
                steps.push(Step::Frame(f));
            } else {
                steps.push(Step::Frame(echo6(ty, *code, b"data")));
            }
        }
    }
    let ops: Vec<u16> = if thorough { (0..=0xffffu16).collect() } else { (0..64).chain([255, 256, 0x100, 0x200, 0xffff]).collect() };
    for op in ops {
        let mut f = arp_request(node4());
        f[14 + 6..14 + 8].copy_from_slice(&op.to_be_bytes());
        steps.push(Step::Frame(f));
    }
    // requests for addresses that are not handled
    steps.push(Step::Frame(arp_request(Ipv4Addr::new(10, 0, 0, 2))));
    steps.push(Step::Frame(ns(Ipv6Addr::new(0x2001, 0xdb8, 0, 0, 0, 0, 0, 2))));
    vec![Scenario {
        name: "icmp-arp-sweep".into(),
        cfg: c,
        start_ms: START,
        steps,
        samples: 0,
    }]
}

/// All 1-cut (and, thorough, 2-cut) compositions of canonical HTTP and RPC streams, each on its own flow.
fn sc_c11(seed: u64, thorough: bool) -> Vec<Scenario> {
    let mut out = Vec::new();
    let mut rng = Rng::new(derive(seed, "directed-c11", 0));
    let key = [rng.u64(), rng.u64()];
    let http1 = b"POST /a HTTP/1.0\r\nA: b\r\n\r\n".to_vec();
    let http2 = b"OPTIONS /x?y HTTP/1.1\nHost: h\n\n".to_vec();
    let call = rpc::Call {
        xid: 0x1122_3344,
        msg_type: 0,
        rpcvers: 2,
        prog: 100000,
        vers: 4,
        proc_: 4,
        cred_flavor: 1,
        cred: vec![1, 2, 3, 4, 5, 6, 7, 8],
        verf_flavor: 0,
        verf: Vec::new(),
        args: Vec::new(),
    };
    // requests that are not answered must not be answered under any segmentation either: a bare CR
    // inside a header name, a header line without colon
    let http3 = b"GET / HTTP/1.1\r\nHo\rst: x\r\n\r\n".to_vec();
    let http4 = b"GET / HTTP/1.1\r\nHost x\r\nA: b\r\n\r\n".to_vec();
    let streams: Vec<(&str, Vec<u8>)> = vec![("http-crlf", http1), ("http-lf", http2), ("rpc-dump", call.encode_tcp()), ("http-cr-in-name", http3), ("http-no-colon", http4), ("http-folded", b"GET / HTTP/1.1\r\nX-Note: first\r\n\tsecond\r\n\r\n".to_vec())];
    for (name, s) in streams {
        let n = s.len();
        let mut comps: Vec<Vec<usize>> = (1..n).map(|a| vec![a]).collect();
        if thorough {
            for a in 1..n {
                for b in a + 1..n {
                    comps.push(vec![a, b]);
                }
            }
        }
        // chunks of flows so that one scenario stays a short history
        for (ci, chunk) in comps.chunks(120).enumerate() {
            let c = cfg(Build::Release, LoggerKind::None, 0, key);
            let mut steps = Vec::new();
            for (k, cuts) in chunk.iter().enumerate() {
                let sport = 10000 + (ci * 120 + k) as u16 % 50000;
                let fl = if k % 2 == 0 { Flow::v4(sport, 111) } else { Flow::v6(sport, 111) };
                let ck = fl.cookie(&key);
                steps.push(Step::Frame(fl.seg(0, 0, F_SYN, &[])));
                let mut prev = 0;
                for c2 in cuts.iter().copied().chain(std::iter::once(n)) {
                    steps.push(Step::Frame(fl.seg(1 + prev as u32, ck.wrapping_add(1), F_PSH | F_ACK, &s[prev..c2])));
                    prev = c2;
                }
            }
            out.push(Scenario {
                name: format!("cuts-{}-{}", name, ci),
                cfg: c,
                start_ms: START,
                steps,
                samples: 1000,
            });
        }
    }
    out
}

/// Every byte value at each wildcard position of the RPC signatures, in otherwise valid calls.
fn sc_c10(seed: u64, thorough: bool) -> Vec<Scenario> {
    let mut rng = Rng::new(derive(seed, "directed-c10", 0));
    let key = [rng.u64(), rng.u64()];
    let c = cfg(Build::Release, LoggerKind::None, 0, key);
    let base = rpc::Call {
        xid: 0x9abc_def0,
        msg_type: 0,
        rpcvers: 2,
        prog: 100000,
        vers: 2,
        proc_: 3,
        cred_flavor: 0,
        cred: Vec::new(),
        verf_flavor: 0,
        verf: Vec::new(),
        args: Vec::new(),
    };
    let mut steps = Vec::new();
    let udp_bytes = base.encode();
    // wildcard positions of RPC:UDP: 0-3 (xid), 11 (rpc version), 15 (program low byte), 16-19 (version), 23 (procedure)
    for pos in [0usize, 1, 2, 3, 15, 16, 17, 18, 19, 23] {
        for b in 0..=255u8 {
            let mut m = udp_bytes.clone();
            m[pos] = b;
            steps.push(Step::Frame(Flow::v4(20000 + pos as u16, 111).udp(&m)));
        }
    }
    // over TCP: xid bytes (positions 4-7 of the record-marked form), one flow per value
    let tcp_bytes = base.encode_tcp();
    let positions: Vec<usize> = if thorough { vec![4, 5, 6, 7, 19, 20, 27] } else { vec![4, 5] };
    let mut sport = 21000u16;
    for pos in positions {
        for b in 0..=255u8 {
            let mut m = tcp_bytes.clone();
            m[pos] = b;
            sport += 1;
            let fl = Flow::v4(sport, 111);
            let ck = fl.cookie(&key);
            steps.push(Step::Frame(fl.seg(0, 0, F_SYN, &[])));
            steps.push(Step::Frame(fl.seg(1, ck.wrapping_add(1), F_PSH | F_ACK, &m)));
        }
    }
    // the datagram form of a call sent over TCP (it completes RPC:UDP at byte 24): first byte sweep
    for b in 0..=255u8 {
        let mut m = udp_bytes.clone();
        m[0] = b;
        sport += 1;
        let fl = Flow::v6(sport, 2049);
        let ck = fl.cookie(&key);
        steps.push(Step::Frame(fl.seg(0, 0, F_SYN, &[])));
        steps.push(Step::Frame(fl.seg(1, ck.wrapping_add(1), F_PSH | F_ACK, &m)));
    }
    // RFC 5389 binding requests with every attribute-area size 0..=300 step 4 (length high byte 00 / 01)
    for n in (0..=300usize).step_by(4) {
        let attrs: Vec<(u16, Vec<u8>)> = if n == 0 { Vec::new() } else { vec![(0x8022, vec![0x20; n - 4])] };
        let m = stun::build(1, &stun::gen_id(&mut rng, true), &attrs);
        steps.push(Step::Frame(Flow::v4(3000 + n as u16, 3478).udp(&m)));
        sport += 1;
        let fl = Flow::v4(sport, 3478);
        let ck = fl.cookie(&key);
        steps.push(Step::Frame(fl.seg(0, 0, F_SYN, &[])));
        steps.push(Step::Frame(fl.seg(1, ck.wrapping_add(1), F_PSH | F_ACK, &m)));
    }
    // every canonical request over TCP with one cut at each of the first 30 positions, and with two
    // cuts inside the first 28 bytes: the signature is completed by the last segment
    let mut cut_steps = Vec::new();
    let apps = canonical_apps(&mut rng);
    let mut sp = 30000u16;
    for (_name, _, stream) in apps.iter() {
        if stream.len() < 3 {
            continue;
        }
        let lim = (stream.len() - 1).min(30);
        let mut compositions: Vec<Vec<usize>> = (1..=lim).map(|c| vec![c]).collect();
        let lim2 = (stream.len() - 1).min(27);
        for _ in 0..(if thorough { 60 } else { 12 }) {
            if lim2 >= 2 {
                let a = rng.range(1, lim2 as u64 - 1) as usize;
                let b = rng.range(a as u64 + 1, lim2 as u64) as usize;
                compositions.push(vec![a, b]);
            }
        }
        for cuts in compositions {
            sp += 1;
            let fl = if sp % 2 == 0 { Flow::v4(sp, 8080) } else { Flow::v6(sp, 8080) };
            let ck = fl.cookie(&key);
            cut_steps.push(Step::Frame(fl.seg(0, 0, F_SYN, &[])));
            let mut prev = 0usize;
            for c in cuts.iter().chain(std::iter::once(&stream.len())) {
                cut_steps.push(Step::Frame(fl.seg(1 + prev as u32, ck.wrapping_add(1), F_PSH | F_ACK, &stream[prev..*c])));
                prev = *c;
            }
        }
    }
    // every ordered pair of signatures as one datagram (and as a first TCP segment) that completes
    // the first and carries the second's literals at the first's wildcard positions
    let mut pair_steps = Vec::new();
    {
        let sigs = crate::apps::sig::signatures();
        let mut sp2 = 36000u16;
        for t in sigs.iter() {
            for cpn in sigs.iter() {
                let m = crate::apps::sig::companion_exact(t, cpn);
                sp2 = sp2.wrapping_add(1);
                pair_steps.push(Step::Frame(Flow::v4(sp2, 3478).udp(&m)));
                if !t.end_anchored {
                    let fl = Flow::v6(sp2, 8081);
                    let ck = fl.cookie(&key);
                    pair_steps.push(Step::Frame(fl.seg(0, 0, F_SYN, &[])));
                    pair_steps.push(Step::Frame(fl.seg(1, ck.wrapping_add(1), F_PSH | F_ACK, &m)));
                }
            }
        }
    }
    vec![
        Scenario {
            name: "signature-pairs".into(),
            cfg: c.clone(),
            start_ms: START,
            steps: pair_steps,
            samples: 0,
        },
        Scenario {
            name: "rpc-wildcard-bytes".into(),
            cfg: c.clone(),
            start_ms: START,
            steps,
            samples: 4000, // every flow of the sweep is replayed and probed
        },
        Scenario {
            name: "signature-cut-by-segmentation".into(),
            cfg: c,
            start_ms: START,
            steps: cut_steps,
            samples: 0,
        },
    ]
}

/// Every message type (class x method) as a second message on STUN-identified TCP flows and,
/// for the cookie-less end-anchored forms, as datagrams: only Binding requests may be answered.
fn sc_c15(seed: u64, thorough: bool) -> Vec<Scenario> {
    let mut rng = Rng::new(derive(seed, "directed-c15", 0));
    let key = [rng.u64(), rng.u64()];
    let c = cfg(Build::Debug, LoggerKind::None, 0, key);
    let mut steps = Vec::new();
    let first = stun::build(1, &stun::gen_id(&mut rng, true), &[(0x8022, vec![0x41; 256])]);
    let step = if thorough { 1 } else { 7 };
    let mut sport = 30000u16;
    let mut ty = 0u32;
    while ty < 0x4000 {
        sport += 1;
        let fl = if sport % 2 == 0 { Flow::v4(sport, 3478) } else { Flow::v6(sport, 3478) };
        let ck = fl.cookie(&key);
        steps.push(Step::Frame(fl.seg(0, 0, F_SYN, &[])));
        steps.push(Step::Frame(fl.seg(1, ck.wrapping_add(1), F_PSH | F_ACK, &first)));
        let mut seq = 1 + first.len() as u32;
        for _ in 0..64 {
            if ty >= 0x4000 {
                break;
            }
            // every third message asks for a port change (only a binding request may get it)
            let attrs: Vec<(u16, Vec<u8>)> = if ty % 3 == 0 { vec![(3, vec![0, 0, 0, 2])] } else { Vec::new() };
            let m = stun::build(ty as u16, &stun::gen_id(&mut rng, true), &attrs);
            steps.push(Step::Frame(fl.seg(seq, ck.wrapping_add(1), F_PSH | F_ACK, &m)));
            seq = seq.wrapping_add(m.len() as u32);
            ty += step;
        }
    }
    vec![Scenario {
        name: "stun-types-on-identified-flow".into(),
        cfg: c,
        start_ms: START,
        steps,
        samples: 0,
    }]
}

/// Collision hunter: with the production key [0,0] an attacker can search offline for two
/// unrelated tuples whose 32-bit cookies are equal (birthday bound ~2^16 tuples). The table is
/// keyed by the cookie, so the second flow rides on the first one's entry.
fn sc_c08(seed: u64) -> Vec<Scenario> {
    sc_collision(seed, false)
}

fn sc_collision(seed: u64, validated_pair: bool) -> Vec<Scenario> {
    use std::collections::HashMap;
    let key = [0u64, 0u64];
    let mut rng = Rng::new(derive(seed, "directed-c08", 0));
    let mut seen: HashMap<u32, (u32, u16)> = HashMap::new();
    let mut found: Option<((u32, u16), (u32, u16))> = None;
    let dst = IpAddr::V4(node4());
    for _ in 0..2_000_000u32 {
        let ip = 0xc633_6400u32 | (rng.u32() & 0xff) | ((rng.u32() & 0xff) << 16 & 0x00ff_0000); // 198.x.100.y-ish spoofable sources
        let sport = rng.u16().max(1024);
        let c = predict_cookie(&key, &IpAddr::V4(Ipv4Addr::from(ip)), &dst, sport, 80);
        if let Some(prev) = seen.get(&c) {
            if prev.0 != ip && prev.1 != sport {
                found = Some((*prev, (ip, sport)));
                break;
            }
        }
        seen.insert(c, (ip, sport));
    }
    let (a, b) = match found {
        Some(x) => x,
        None => return Vec::new(),
    };
    let fa = Flow { src: IpAddr::V4(Ipv4Addr::from(a.0)), dst, sport: a.1, dport: 80 };
    let fb = Flow { src: IpAddr::V4(Ipv4Addr::from(b.0)), dst, sport: b.1, dport: 80 };
    let ck = fa.cookie(&key);
    if validated_pair {
        // both flows present their (equal) cookies: each is a validated flow of its own, and its
        // later segments - whose acknowledgement numbers have moved on - are data of a validated flow
        let req = b"GET / HTTP/1.1\r\nHost: a\r\n\r\n";
        let steps = vec![
            Step::Frame(fa.seg(100, 0, F_SYN, &[])),
            Step::Frame(fb.seg(200, 0, F_SYN, &[])),
            Step::Frame(fa.seg(101, ck.wrapping_add(1), F_PSH | F_ACK, req)),
            Step::Frame(fb.seg(201, ck.wrapping_add(1), F_PSH | F_ACK, req)),
            Step::Frame(fb.seg(201 + req.len() as u32, ck.wrapping_add(400), F_PSH | F_ACK, req)),
            Step::Frame(fa.seg(101 + req.len() as u32, ck.wrapping_add(400), F_PSH | F_ACK, req)),
            Step::Frame(fb.seg(201 + 2 * req.len() as u32, ck.wrapping_add(800), F_FIN | F_ACK, &[])),
        ];
        return vec![Scenario {
            name: "cookie-collision-both-validated".into(),
            cfg: cfg(Build::Release, LoggerKind::None, 0, key),
            start_ms: START,
            steps,
            samples: 0,
        }];
    }
    let steps = vec![
        Step::Frame(fa.seg(100, 0, F_SYN, &[])),
        Step::Frame(fb.seg(200, 0, F_SYN, &[])),
        Step::Frame(fa.seg(101, ck.wrapping_add(1), F_PSH | F_ACK, b"GET / HTTP/1.1\r\n")),
        // B never presented its cookie: wrong acknowledgement number, yet it completes A's request
        Step::Frame(fb.seg(201, 0x1234_5678, F_PSH | F_ACK, b"\r\n")),
    ];
    vec![Scenario {
        name: "cookie-collision-hunter".into(),
        cfg: cfg(Build::Release, LoggerKind::None, 0, key),
        start_ms: START,
        steps,
        samples: 16,
    }]
}

/// Connections identified as ONC-RPC by a first call, followed by reply-typed records of every
/// shape the generator knows (plain, with random results, with results that are themselves a bare
/// or framed call), whole or cut into two or three segments, and a closing call.
fn sc_c12(seed: u64, thorough: bool) -> Vec<Scenario> {
    let mut rng = Rng::new(derive(seed, "directed-c12", 0));
    let key = [rng.u64(), rng.u64()];
    let c = cfg(Build::Release, LoggerKind::None, 0, key);
    let mut steps = Vec::new();
    let n = if thorough { 1500 } else { 300 };
    for k in 0..n {
        let fl = if k % 2 == 0 { Flow::v4(33000 + k as u16, 111) } else { Flow::v6(33000 + k as u16, 2049) };
        let ck = fl.cookie(&key);
        let ack = ck.wrapping_add(1);
        let mut seq = 1u32;
        steps.push(Step::Frame(fl.seg(0, 0, F_SYN, &[])));
        let first = rpc::gen_call(&mut rng).encode_tcp();
        steps.push(Step::Frame(fl.seg(seq, ack, F_PSH | F_ACK, &first)));
        seq = seq.wrapping_add(first.len() as u32);
        for _ in 0..rng.range(1, 3) {
            let b = if rng.chance(1, 3) {
                // SUCCESS reply whose results are a framed call
                let mut b = rng.u32().to_be_bytes().to_vec();
                b.extend_from_slice(&[0, 0, 0, 1, 0, 0, 0, 0, 0, 0, 0, 0, 0, 0, 0, 0, 0, 0, 0, 0]);
                b.extend_from_slice(&rpc::gen_call(&mut rng).encode_tcp());
                b
            } else {
                rpc::gen_reply_msg(&mut rng)
            };
            let mut m;
            let mut mark2: Option<usize> = None;
            if b.len() > 12 && rng.chance(1, 3) {
                // a record of two fragments
                let c1 = rng.range(4, b.len() as u64 - 4) as usize;
                m = (c1 as u32).to_be_bytes().to_vec();
                m.extend_from_slice(&b[..c1]);
                mark2 = Some(m.len());
                m.extend_from_slice(&(0x8000_0000u32 | (b.len() - c1) as u32).to_be_bytes());
                m.extend_from_slice(&b[c1..]);
            } else {
                m = (0x8000_0000u32 | b.len() as u32).to_be_bytes().to_vec();
                m.extend_from_slice(&b);
            }
            let mut cuts: Vec<usize> = match (mark2, rng.below(3)) {
                // a cut at, or inside, the record mark of the continuation fragment
                (Some(k), 0) | (Some(k), 1) => vec![k + rng.below(5) as usize],
                (_, 0) => Vec::new(),
                (_, 1) => vec![rng.range(1, m.len() as u64 - 1) as usize],
                _ => vec![rng.range(1, m.len() as u64 - 1) as usize, rng.range(1, m.len() as u64 - 1) as usize],
            };
            cuts.sort();
            cuts.dedup();
            let mut prev = 0;
            for cpos in cuts.iter().chain(std::iter::once(&m.len())) {
                steps.push(Step::Frame(fl.seg(seq, ack, F_PSH | F_ACK, &m[prev..*cpos])));
                seq = seq.wrapping_add((*cpos - prev) as u32);
                prev = *cpos;
            }
        }
        let last = rpc::gen_call(&mut rng).encode_tcp();
        steps.push(Step::Frame(fl.seg(seq, ack, F_PSH | F_ACK, &last)));
    }
    vec![Scenario {
        name: "rpc-replies-on-identified-connections".into(),
        cfg: c,
        start_ms: START,
        steps,
        samples: 0,
    }]
}

/// Gh0st requests with every value of the two bytes where a client's zlib header sits
/// (thorough: all 65 536; quick: 0x78 xx and xx 0x9c), over UDP and TCP.
fn sc_c18(seed: u64, thorough: bool) -> Vec<Scenario> {
    let mut rng = Rng::new(derive(seed, "directed-c18", 0));
    let key = [rng.u64(), rng.u64()];
    let c = cfg(Build::Release, LoggerKind::None, 0, key);
    let mut steps = Vec::new();
    let mut pairs: Vec<(u8, u8)> = Vec::new();
    if thorough {
        for a in 0..=255u8 {
            for b in 0..=255u8 {
                pairs.push((a, b));
            }
        }
    } else {
        for b in 0..=255u8 {
            pairs.push((0x78, b));
            pairs.push((b, 0x9c));
        }
    }
    let fl = Flow::v4(4444, 8000);
    let fl6 = Flow::v6(4444, 8000);
    for (k, (a, b)) in pairs.iter().enumerate() {
        let mut m = b"Gh0st".to_vec();
        m.extend_from_slice(&24u32.to_le_bytes());
        m.extend_from_slice(&1u32.to_le_bytes());
        m.extend_from_slice(&[*a, *b, 0x63, 0, 0, 0, 1, 0, 1]);
        steps.push(Step::Frame(if k % 2 == 0 { fl.udp(&m) } else { fl6.udp(&m) }));
    }
    // the same over TCP for the quick set
    let mut sport = 5000u16;
    for b in (0..=255u8).step_by(if thorough { 1 } else { 5 }) {
        sport += 1;
        let f = Flow::v4(sport, 8000);
        let ck = f.cookie(&key);
        let mut m = b"Gh0st".to_vec();
        m.extend_from_slice(&[24, 0, 0, 0, 1, 0, 0, 0, 0x78, b, 0x63, 0, 0, 0, 1, 0, 1]);
        steps.push(Step::Frame(f.seg(0, 0, F_SYN, &[])));
        steps.push(Step::Frame(f.seg(1, ck.wrapping_add(1), F_PSH | F_ACK, &m)));
    }
    vec![Scenario {
        name: "ghost-zlib-header-bytes".into(),
        cfg: c,
        start_ms: START,
        steps,
        samples: 0,
    }]
}

/// Scale: what only shows after thousands of events of one kind - a burst of SYNs from one source
/// within a fraction of a second ("whatever happened before"), and one keep-alive connection
/// carrying more than a thousand requests.
fn sc_scale(seed: u64, thorough: bool, which: &str) -> Vec<Scenario> {
    let mut out = Vec::new();
    let builds: Vec<Build> = if thorough { vec![Build::Release, Build::Debug] } else { vec![Build::Release] };
    for (bi, build) in builds.into_iter().enumerate() {
        let mut rng = Rng::new(derive(seed, "directed-scale", bi as u64));
        let key = [rng.u64(), rng.u64()];
        let v6 = rng.chance(1, 2);
        if which == "syn-burst" {
            let n = if thorough { 70_000u32 } else { 12_500 };
            let mut steps = vec![Step::Mono(1_000)];
            for i in 0..n {
                if i % 500 == 0 {
                    // the whole burst fits in well under a second of the node's clocks
                    steps.push(Step::Mono(1_000 + (i as u64 / 500) * 4_000));
                }
                let sport = 1024 + (i % 60_000) as u16;
                let dport = *rng.pick(&[80u16, 443, 22, 8080, 445]);
                let fl = if v6 { Flow::v6(sport, dport) } else { Flow::v4(sport, dport) };
                let fl_flags = if i % 97 == 0 { F_SYN | F_ECE } else { F_SYN };
                steps.push(Step::Frame(fl.seg(rng.u32(), 0, fl_flags, &[])));
            }
            // and the connections still work afterwards
            let fl = if v6 { Flow::v6(1024, 80) } else { Flow::v4(1024, 80) };
            let ck = fl.cookie(&key);
            steps.push(Step::Frame(fl.seg(10, 0, F_SYN, &[])));
            steps.push(Step::Frame(fl.seg(11, ck.wrapping_add(1), F_PSH | F_ACK, b"GET / HTTP/1.1\r\n\r\n")));
            out.push(Scenario {
                name: format!("syn-burst-{}-{}", if v6 { "v6" } else { "v4" }, build.as_str()),
                cfg: cfg(build, LoggerKind::None, 0, key),
                start_ms: START,
                steps,
                samples: 0,
            });
        } else if which == "flood" {
            // unvalidated traffic from ever new sources: SYNs, datagrams, data segments with a wrong
            // acknowledgement number, both IP versions - nothing of it may leave anything behind
            let n: u32 = std::env::var("VERIF_FLOOD").ok().and_then(|s| s.parse().ok()).unwrap_or(if thorough { 1_000_000 } else { 200_000 });
            let mut steps = Vec::new();
            for i in 0..n {
                let sport = 1024 + (i % 50_000) as u16;
                let fl = if i % 3 == 2 {
                    Flow {
                        src: IpAddr::V6(Ipv6Addr::new(0x2001, 0xdb8, 0xf00d, (i >> 16) as u16, 0, 0, (i >> 8) as u16, i as u16)),
                        dst: IpAddr::V6(node6()),
                        sport,
                        dport: 443,
                    }
                } else {
                    Flow {
                        src: IpAddr::V4(Ipv4Addr::from(0xcb00_0000u32.wrapping_add(i.wrapping_mul(2654435761) & 0x00ff_ffff))),
                        dst: IpAddr::V4(node4()),
                        sport,
                        dport: 80,
                    }
                };
                steps.push(Step::Frame(match i % 8 {
                    0 | 1 | 2 | 3 | 4 => fl.seg(rng.u32(), 0, F_SYN, &[]),
                    5 => fl.udp(b"\x00\x01\x00\x00\x21\x12\xa4\x42abcdefghijkl"),
                    6 => fl.seg(rng.u32(), rng.u32(), F_PSH | F_ACK, b"GET / HTTP/1.1\r\n\r\n"),
                    _ => fl.seg(rng.u32(), rng.u32(), F_ACK, &[]),
                }));
            }
            out.push(Scenario {
                name: format!("flood-{}-{}", n, build.as_str()),
                cfg: cfg(build, LoggerKind::None, 0, key),
                start_ms: START,
                steps,
                samples: 0,
            });
            if thorough {
                break;
            }
        } else if which == "mass-validated" || which == "mass-validated-logged" {
            // more validated connections in one life of the connection table than any bound one
            // would plausibly put on it (2^16, 2^18, thorough: 2^20): connections opened before
            // the crowd and after it behave like any other
            let n: u32 = std::env::var("VERIF_MASS").ok().and_then(|s| s.parse().ok()).unwrap_or(if thorough { 2_200_000 } else { 270_000 });
            let mk = |sport: u16, dport: u16| if v6 { Flow::v6(sport, dport) } else { Flow::v4(sport, dport) };
            let mut steps = Vec::new();
            let req = b"GET /index.html HTTP/1.1\r\nHost: example.test\r\n\r\n";
            // A: half a request sent; B: one request answered
            let (fa, fb) = (mk(1000, 80), mk(1001, 80));
            let (ca, cb) = (fa.cookie(&key), fb.cookie(&key));
            steps.push(Step::Frame(fa.seg(500, 0, F_SYN, &[])));
            steps.push(Step::Frame(fa.seg(501, ca.wrapping_add(1), F_PSH | F_ACK, &req[..20])));
            steps.push(Step::Frame(fb.seg(700, 0, F_SYN, &[])));
            steps.push(Step::Frame(fb.seg(701, cb.wrapping_add(1), F_PSH | F_ACK, req)));
            let dports = [21u16, 22, 23, 25, 53, 80, 110, 111, 135, 139, 143, 443, 445, 993, 3306, 3389, 5900, 8000, 8080, 8443];
            for i in 0..n {
                let mut f = mk(1024 + (i % 64_000) as u16, dports[(i / 64_000) as usize % dports.len()]);
                // 64 000 ports x 20 services per source address
                let block = (i / 1_280_000) as u16;
                if block > 0 {
                    f.src = if v6 { IpAddr::V6(Ipv6Addr::new(0x2001, 0xdb8, 0xffff, 0, 0, 0, 0, 1 + block)) } else { IpAddr::V4(Ipv4Addr::new(192, 0, 2, 1 + block as u8)) };
                }
                let c = f.cookie(&key);
                steps.push(Step::Frame(f.seg(9, c.wrapping_add(1), F_PSH | F_ACK, b"\n")));
            }
            // A completes its request; B sends another one; C is new and sends a request in two parts
            steps.push(Step::Frame(fa.seg(521, ca.wrapping_add(1), F_PSH | F_ACK, &req[20..])));
            steps.push(Step::Frame(fb.seg(701 + req.len() as u32, cb.wrapping_add(1), F_PSH | F_ACK, req)));
            let fc = mk(1002, 80);
            let cc = fc.cookie(&key);
            steps.push(Step::Frame(fc.seg(900, 0, F_SYN, &[])));
            steps.push(Step::Frame(fc.seg(901, cc.wrapping_add(1), F_PSH | F_ACK, &req[..10])));
            steps.push(Step::Frame(fc.seg(911, cc.wrapping_add(1), F_PSH | F_ACK, &req[10..])));
            out.push(Scenario {
                name: format!("{}-{}-{}-{}", which, n, if v6 { "v6" } else { "v4" }, build.as_str()),
                cfg: cfg(build, if which == "mass-validated-logged" { LoggerKind::Logfmt } else { LoggerKind::None }, 0, key),
                start_ms: START,
                steps,
                samples: 0,
            });
            if thorough {
                break; // one build is enough at this size
            }
        } else {
            let n = if thorough { 5_000u32 } else { 1_300 };
            let fl = if v6 { Flow::v6(40_000, 80) } else { Flow::v4(40_000, 8080) };
            let ck = fl.cookie(&key);
            let mut steps = vec![Step::Frame(fl.seg(100, 0, F_SYN, &[]))];
            let mut seq = 101u32;
            for i in 0..n {
                let m = *rng.pick(&["GET", "HEAD", "POST", "OPTIONS", "DELETE"]);
                let req = format!("{} /item/{} HTTP/1.1\r\nHost: example.test\r\nUser-Agent: crawler/1.0\r\n\r\n", m, i);
                steps.push(Step::Frame(fl.seg(seq, ck.wrapping_add(1), F_PSH | F_ACK, req.as_bytes())));
                seq = seq.wrapping_add(req.len() as u32);
                if i % 100 == 99 {
                    steps.push(Step::Mono(1_000 + i as u64 * 20_000));
                }
            }
            out.push(Scenario {
                name: format!("keepalive-{}-{}-{}", n, if v6 { "v6" } else { "v4" }, build.as_str()),
                cfg: cfg(build, LoggerKind::None, 0, key),
                start_ms: START,
                steps,
                samples: 0,
            });
        }
    }
    out
}

pub fn scenarios(prop: &str, tier: &str, seed: u64) -> Vec<Scenario> {
    let thorough = tier == "thorough";
    match prop {
        "C01" => {
            let mut v = sc_c01(seed, thorough);
            // connections with cookie 0xffffffff / 0 (debug build: cookie arithmetic must not trap)
            v.extend(sc_flags(seed, false).into_iter().filter(|s| s.name == "edge-cookies"));
            v
        }
        "C06" => {
            let mut v = sc_flags(seed, thorough);
            v.extend(sc_scale(seed, thorough, "syn-burst"));
            v
        }
        "C13" => sc_scale(seed, thorough, "keepalive"),
        "C09" => {
            let mut v = sc_flags(seed, thorough);
            v.extend(sc_scale(seed, thorough, "mass-validated"));
            v.extend(sc_scale(seed, thorough, "flood"));
            v
        }
        "C07" => {
            let mut v = sc_flags(seed, thorough);
            v.extend(sc_collision(seed, true));
            v
        }
        "C03" => {
            let mut v = sc_flags(seed, false);
            v.extend(sc_c15(seed, false));
            v
        }
        "C04" => {
            let mut v = sc_c04(seed, thorough);
            v.extend(sc_flags(seed, false));
            v
        }
        "C05" => sc_c05(seed, thorough),
        "C11" => {
            let mut v = sc_c11(seed, thorough);
            v.extend(sc_scale(seed, thorough, "mass-validated"));
            v
        }
        "C08" => {
            let mut v = sc_c08(seed);
            v.extend(sc_scale(seed, thorough, "mass-validated"));
            v
        }
        "C15" => sc_c15(seed, thorough),
        "C18" => sc_c18(seed, thorough),
        "C10" => sc_c10(seed, thorough),
        "C16" => {
            let mut v = sc_c10(seed, thorough);
            // calls behind reply-typed records (whole, cut, in fragments) on the same connection
            v.extend(sc_c12(seed, thorough));
            v
        }
        "C12" => {
            let mut v = sc_c05(seed, false);
            v.extend(sc_c12(seed, thorough));
            v
        }
        "C20" => {
            let mut v = sc_c05(seed, false);
            for s in v.iter_mut() {
                s.cfg.logger = LoggerKind::Console;
            }
            let mut w = sc_flags(seed, false);
            for s in w.iter_mut() {
                s.cfg.logger = LoggerKind::Logfmt;
            }
            v.extend(w);
            if thorough {
                // the account stays balanced however many connections the table holds
                v.extend(sc_scale(seed, true, "mass-validated-logged"));
            }
            v
        }
        _ => Vec::new(),
    }
}
